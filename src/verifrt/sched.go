package verifrt

import (
	"fmt"
	"runtime/debug"
	"sync"
	"unsafe"
)

// Cooperative scheduler over real goroutines.  Exactly one task holds the run
// token.  The hand-over (channel send/receive) happens with the race detector's
// synchronisation tracking switched off, so it creates no happens-before edge:
// the detector keeps seeing the program's own synchronisation only.

const (
	PolicyRandom     = iota // random walk: switch after a drawn run length
	PolicyPCT               // priorities with d change points
	PolicyRoundRobin        // switch at every yield
	PolicySerial            // run tasks to completion in a drawn order
)

const (
	stRunnable = iota
	stBlocked
	stDone
)

type Task struct {
	ID       int
	wake     chan struct{}
	state    int
	blocked  unsafe.Pointer
	fn       func()
	Panic    any
	Stack    string
	prio     int
	lastSite uint32
	Steps    int
}

type SwitchRec struct {
	From, To int
	Site     uint32
}

type Sched struct {
	tasks    []*Task
	cur      *Task
	tape     *Tape
	Policy   int
	RunLen   int // mean run length for PolicyRandom
	PCTDepth int
	PCTLen   int // assumed run length in steps for placing change points
	MaxSteps int

	Steps     int
	Switches  int
	Blocks    int
	Deadlock  bool
	Overrun   bool
	abort     bool
	TraceHash uint64
	Pairs     []uint64    // (site before, site after) at each switch, capped
	Trace     []SwitchRec // first switches, capped
	countdown int
	changeAt  []int
	mainWake  chan struct{}
}

type abortT struct{}

var abortSentinel = &abortT{}

var sched *Sched

// Active reports whether a scheduler run is in progress.
//
//go:norace
func Active() bool { return sched != nil }

//go:norace
func CurrentTaskID() int {
	s := sched
	if s == nil || s.cur == nil {
		return -1
	}
	return s.cur.ID
}

func NewSched(tape *Tape, policy int) *Sched {
	return &Sched{tape: tape, Policy: policy, RunLen: 8, PCTDepth: 2, PCTLen: 2000, MaxSteps: 400000,
		mainWake: make(chan struct{}, 1)}
}

// Run executes fns as tasks under the scheduler and returns when all have
// finished (or the run was aborted because of a deadlock / step overrun).
func (s *Sched) Run(fns []func()) []*Task {
	var wg sync.WaitGroup
	for i, fn := range fns {
		t := &Task{ID: i, fn: fn, wake: make(chan struct{}, 1)}
		s.tasks = append(s.tasks, t)
	}
	// priorities (PCT) / order (serial): a drawn permutation
	n := len(s.tasks)
	perm := make([]int, n)
	for i := range perm {
		perm[i] = i
	}
	for i := 0; i < n-1; i++ {
		j := i + s.tape.Draw(n-i)
		perm[i], perm[j] = perm[j], perm[i]
	}
	for i, p := range perm {
		s.tasks[p].prio = n - i + 1000
	}
	if s.Policy == PolicyPCT {
		for d := 0; d < s.PCTDepth; d++ {
			s.changeAt = append(s.changeAt, 1+s.tape.Draw(s.PCTLen))
		}
	}
	s.countdown = s.nextRun()
	for _, t := range s.tasks {
		wg.Add(1)
		go s.taskMain(t, &wg)
	}
	sched = s
	first := s.pick(nil)
	s.cur = first
	s.handToAndWaitMain(first)
	sched = nil
	wg.Wait()
	return s.tasks
}

//go:norace
func (s *Sched) handToAndWaitMain(t *Task) {
	raceDisable()
	t.wake <- struct{}{}
	<-s.mainWake
	raceEnable()
}

//go:norace
func park(t *Task) {
	raceDisable()
	<-t.wake
	raceEnable()
}

//go:norace
func signal(t *Task) {
	raceDisable()
	t.wake <- struct{}{}
	raceEnable()
}

func (s *Sched) taskMain(t *Task, wg *sync.WaitGroup) {
	defer wg.Done()
	park(t)
	func() {
		defer func() {
			if r := recover(); r != nil {
				if r == any(abortSentinel) || s.abortedNow() {
					return
				}
				t.Panic = r
				t.Stack = string(debug.Stack())
			}
		}()
		if !s.abortedNow() {
			t.fn()
		}
	}()
	s.exit(t)
}

//go:norace
func (s *Sched) abortedNow() bool { return s.abort }

//go:norace
func (s *Sched) nextRun() int {
	switch s.Policy {
	case PolicyRandom:
		return 1 + s.tape.Draw(2*s.RunLen)
	case PolicyRoundRobin:
		return 1
	}
	return 1 << 30
}

// pick chooses the next task to run among runnable ones (excluding `not` when
// another is available).
//
//go:norace
func (s *Sched) pick(not *Task) *Task {
	var cand [64]*Task
	n := 0
	for _, t := range s.tasks {
		if t.state == stRunnable && t != not && n < len(cand) {
			cand[n] = t
			n++
		}
	}
	if n == 0 {
		if not != nil && not.state == stRunnable {
			return not
		}
		return nil
	}
	switch s.Policy {
	case PolicyPCT, PolicySerial:
		best := cand[0]
		for i := 1; i < n; i++ {
			if cand[i].prio > best.prio {
				best = cand[i]
			}
		}
		if not != nil && not.state == stRunnable && not.prio > best.prio {
			return not
		}
		return best
	case PolicyRoundRobin:
		// next id after the current one
		if s.cur != nil {
			for i := 0; i < n; i++ {
				if cand[i].ID > s.cur.ID {
					return cand[i]
				}
			}
		}
		return cand[0]
	}
	return cand[s.tape.Draw(n)]
}

// Y is a pre-emption point.
//
//go:norace
func Y(site uint32) {
	s := sched
	if s == nil {
		return
	}
	s.step(site)
}

// TraceSites, when non-nil, receives every yield site visited (debugging aid).
var TraceSites *[]uint32

//go:norace
func (s *Sched) step(site uint32) {
	if s.abort {
		panic(abortSentinel)
	}
	if TraceSites != nil {
		*TraceSites = append(*TraceSites, site)
	}
	t := s.cur
	s.Steps++
	t.Steps++
	t.lastSite = site
	if s.Steps > s.MaxSteps {
		s.Overrun = true
		s.abort = true
		panic(abortSentinel)
	}
	want := false
	switch s.Policy {
	case PolicyPCT:
		for i, c := range s.changeAt {
			if c == s.Steps {
				t.prio = -i - 1
				want = true
			}
		}
	case PolicySerial:
	default:
		s.countdown--
		if s.countdown <= 0 {
			want = true
			s.countdown = s.nextRun()
		}
	}
	if !want {
		return
	}
	next := s.pick(t)
	if next == nil || next == t {
		return
	}
	s.switchTo(next, site)
}

//go:norace
func (s *Sched) switchTo(next *Task, site uint32) {
	me := s.cur
	s.Switches++
	s.TraceHash = (s.TraceHash ^ uint64(next.ID+1)<<32 ^ uint64(site)) * 1099511628211
	if len(s.Pairs) < 4096 {
		s.Pairs = append(s.Pairs, uint64(site)<<32|uint64(next.lastSite))
	}
	if len(s.Trace) < 256 {
		s.Trace = append(s.Trace, SwitchRec{From: me.ID, To: next.ID, Site: site})
	}
	s.cur = next
	raceDisable()
	next.wake <- struct{}{}
	<-me.wake
	raceEnable()
	if s.abort {
		panic(abortSentinel)
	}
}

// Block deschedules the current task until WakeAll(on) is called.  It returns
// when the task has been woken and scheduled again; callers re-check their
// condition in a loop.
//
//go:norace
func Block(on unsafe.Pointer, site uint32) {
	s := sched
	if s == nil {
		panic("verifrt.Block outside a simulation")
	}
	if s.abort {
		panic(abortSentinel)
	}
	me := s.cur
	me.state = stBlocked
	me.blocked = on
	me.lastSite = site
	s.Blocks++
	next := s.pick(me)
	if next == nil {
		// every live task is blocked
		s.Deadlock = true
		s.abort = true
		me.state = stRunnable
		panic(abortSentinel)
	}
	s.switchTo(next, site)
}

// WakeAll makes every task blocked on `on` runnable.
//
//go:norace
func WakeAll(on unsafe.Pointer) {
	s := sched
	if s == nil {
		return
	}
	for _, t := range s.tasks {
		if t.state == stBlocked && t.blocked == on {
			t.state = stRunnable
			t.blocked = nil
		}
	}
}

// Aborting reports whether the current run is being torn down; simulated
// primitives become no-ops then.
//
//go:norace
func Aborting() bool {
	s := sched
	return s != nil && s.abort
}

//go:norace
func (s *Sched) exit(t *Task) {
	t.state = stDone
	next := s.pick(t)
	if next == nil {
		// nobody runnable: either everyone is done, or the rest is blocked
		for _, o := range s.tasks {
			if o.state == stBlocked {
				if !s.abort {
					s.Deadlock = true
					s.abort = true
				}
				o.state = stRunnable
				o.blocked = nil
				next = o
				break
			}
		}
	}
	if next == nil {
		raceDisable()
		s.mainWake <- struct{}{}
		raceEnable()
		return
	}
	s.cur = next
	s.Switches++
	signal(next)
}

// Go starts a simulated task from instrumented code (`go` statement).  Outside
// a simulation it is a plain goroutine.  Dynamic task creation inside a
// simulation is not needed by any claimed code path; it runs the function
// inline, which is one of the schedules the Go scheduler may produce only if
// the function does not wait for its parent - so it is reported.
func Go(fn func()) {
	if sched == nil {
		go fn()
		return
	}
	panic(fmt.Sprintf("verifrt.Go: dynamic goroutine creation inside a simulation is not supported"))
}

// ---------------------------------------------------------------- exclusivity monitor

var live [256]unsafe.Pointer

// LiveAdd registers p as in use; it reports false if p is already in use by
// someone else (pool exclusivity violated).  Race-detector invisible.
//
//go:norace
func LiveAdd(p unsafe.Pointer) bool {
	free := -1
	for i := range live {
		if live[i] == p {
			return false
		}
		if live[i] == nil && free < 0 {
			free = i
		}
	}
	if free >= 0 {
		live[free] = p
	}
	return true
}

//go:norace
func LiveRemove(p unsafe.Pointer) {
	for i := range live {
		if live[i] == p {
			live[i] = nil
		}
	}
}

//go:norace
func LiveReset() {
	for i := range live {
		live[i] = nil
	}
}
