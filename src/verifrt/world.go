// Package verifrt is the simulator runtime that instrumented coraza code calls
// into.  It must not import any coraza package.
//
// Everything that is reached from more than one simulated task without a
// synchronisation edge that the race detector can see is written in
// "norace-clean" style: //go:norace functions that only touch struct fields and
// slices (no Go maps: the runtime's map functions carry their own race hooks).
package verifrt

import (
	"cmp"
	"iter"
	"sort"
	"time"
)

// ---------------------------------------------------------------- tapes

// Tape is a recorded stream of bounded draws.  In generation mode values come
// from a splitmix64 PRNG; in replay mode from a previously recorded tape (an
// exhausted tape yields 0, the "simplest" choice).
type Tape struct {
	Name   string
	Rec    []uint32
	play   []uint32
	replay bool
	pos    int
	s      uint64
}

//go:norace
func splitmix(x *uint64) uint64 {
	*x += 0x9e3779b97f4a7c15
	z := *x
	z = (z ^ (z >> 30)) * 0xbf58476d1ce4e5b9
	z = (z ^ (z >> 27)) * 0x94d049bb133111eb
	return z ^ (z >> 31)
}

// Mix derives a sub-seed.
func Mix(seed uint64, salt uint64) uint64 {
	x := seed ^ (salt * 0xd6e8feb86659fd93)
	splitmix(&x)
	return splitmix(&x)
}

func hashName(s string) uint64 {
	h := uint64(1469598103934665603)
	for i := 0; i < len(s); i++ {
		h ^= uint64(s[i])
		h *= 1099511628211
	}
	return h
}

func NewTape(name string, seed uint64) *Tape {
	return &Tape{Name: name, s: Mix(seed, hashName(name))}
}

func ReplayTape(name string, vals []uint32) *Tape {
	return &Tape{Name: name, play: vals, replay: true}
}

// Draw returns a value in [0,n).  n<=1 draws nothing.
//
//go:norace
func (t *Tape) Draw(n int) int {
	if n <= 1 {
		return 0
	}
	var v uint32
	if t.replay {
		if t.pos < len(t.play) {
			v = t.play[t.pos] % uint32(n)
		}
		t.pos++
	} else {
		v = uint32(splitmix(&t.s) % uint64(n))
	}
	t.Rec = append(t.Rec, v)
	return int(v)
}

// Bool draws true with probability 1/den (false is the simple choice).
//
//go:norace
func (t *Tape) Bool(den int) bool {
	if den <= 1 {
		return t.Draw(2) == 1
	}
	return t.Draw(den) == den-1
}

// Range draws from [lo,hi].
//
//go:norace
func (t *Tape) Range(lo, hi int) int {
	if hi <= lo {
		return lo
	}
	return lo + t.Draw(hi-lo+1)
}

// ---------------------------------------------------------------- world

const (
	MapCanonical = iota // sorted keys
	MapRotate           // rotation of the sorted order (what small Go maps do)
	MapShuffle          // any permutation (what the language allows)
)

const (
	PoolLIFO = iota
	PoolFIFO
	PoolNew    // never reuse
	PoolRandom // random element or New
	PoolDrop   // random, and the pool may be emptied ("GC")
)

// World is the set of simulated resources of one run.
type World struct {
	Seed uint64

	Work  *Tape // workload generation
	Sch   *Tape // scheduling decisions
	Fault *Tape // fault decisions
	Map   *Tape // map-order permutations
	PoolT *Tape // pool decisions

	MapPolicy  int
	PoolPolicy int

	// clock (ns since Unix epoch); only touched by norace code
	now      int64
	ClockOps int64
	Tick     int64

	// statistics, single-task use only
	MapOrders    int // number of non-identity orders produced
	MapSites     []uint32
	MapSiteOrder []uint64 // hash of order, parallel to MapSites (append only)
	PoolReuse    int
	PoolNewObj   int

	FS any // *simos.FS, owned by simos (kept as any to avoid an import cycle)

	randSrc *simSource
}

const Epoch = int64(1767225600) * 1e9 // 2026-01-01T00:00:00Z

// W is the current world.  There is always one.
var W = NewWorld(0)

func NewWorld(seed uint64) *World {
	w := &World{Seed: seed, now: Epoch, Tick: int64(time.Millisecond)}
	w.Work = NewTape("work", seed)
	w.Sch = NewTape("sched", seed)
	w.Fault = NewTape("fault", seed)
	w.Map = NewTape("map", seed)
	w.PoolT = NewTape("pool", seed)
	return w
}

// Tapes returns the recorded tapes by name.
func (w *World) Tapes() map[string][]uint32 {
	return map[string][]uint32{
		"work": w.Work.Rec, "sched": w.Sch.Rec, "fault": w.Fault.Rec, "map": w.Map.Rec, "pool": w.PoolT.Rec,
	}
}

// NewReplayWorld builds a world that replays the given tapes.
func NewReplayWorld(seed uint64, tapes map[string][]uint32) *World {
	w := NewWorld(seed)
	w.Work = ReplayTape("work", tapes["work"])
	w.Sch = ReplayTape("sched", tapes["sched"])
	w.Fault = ReplayTape("fault", tapes["fault"])
	w.Map = ReplayTape("map", tapes["map"])
	w.PoolT = ReplayTape("pool", tapes["pool"])
	return w
}

var installHooks []func(w *World)

// OnInstall registers a hook run whenever a world is installed (simos uses it
// to attach a fresh file system).
func OnInstall(f func(w *World)) { installHooks = append(installHooks, f) }

// Install makes w the current world (fresh disk, clock at the epoch, random
// source re-seeded).
func Install(w *World) {
	W = w
	for _, f := range installHooks {
		f(w)
	}
	if globalSrc != nil {
		globalSrc.reseed(int64(Mix(w.Seed, 77)))
	}
}

// ---------------------------------------------------------------- clock

//go:norace
func Now() time.Time {
	w := W
	w.now += w.Tick
	w.ClockOps++
	return time.Unix(0, w.now).UTC()
}

//go:norace
func (w *World) NowNanos() int64 { return w.now }

//go:norace
func (w *World) SetClock(ns int64) { w.now = ns }

//go:norace
func (w *World) AdvanceClock(d time.Duration) { w.now += int64(d) }

func Since(t time.Time) time.Duration { return Now().Sub(t) }
func Until(t time.Time) time.Duration { return t.Sub(Now()) }

// Timers: none of the claimed code paths use them.  They are given the
// simplest faithful meaning (fire immediately in simulated time) so that code
// which starts using them still builds and runs.
func After(d time.Duration) <-chan time.Time {
	c := make(chan time.Time, 1)
	W.AdvanceClock(d)
	c <- Now()
	return c
}
func Sleep(d time.Duration)                 { W.AdvanceClock(d) }
func Tick(d time.Duration) <-chan time.Time { return time.Tick(d) }
func NewTimer(d time.Duration) *time.Timer  { return time.NewTimer(0) }
func NewTicker(d time.Duration) *time.Ticker {
	return time.NewTicker(d)
}
func AfterFunc(d time.Duration, f func()) *time.Timer { return time.AfterFunc(0, f) }

// ---------------------------------------------------------------- map order

// MapRange iterates m in an order chosen by the simulator.  Keys are
// snapshotted first; a key deleted before its turn is skipped, keys added
// during the iteration are not visited (both allowed by the language).
func MapRange[M ~map[K]V, K cmp.Ordered, V any](site uint32, m M) iter.Seq2[K, V] {
	return func(yield func(K, V) bool) {
		n := len(m)
		if n == 0 {
			return
		}
		keys := make([]K, 0, n)
		for k := range m {
			keys = append(keys, k)
		}
		sort.Slice(keys, func(i, j int) bool { return cmp.Less(keys[i], keys[j]) })
		w := W
		if n > 1 && w.MapPolicy != MapCanonical && sched == nil {
			var h uint64
			switch w.MapPolicy {
			case MapRotate:
				r := w.Map.Draw(n)
				if r != 0 {
					rot := make([]K, 0, n)
					rot = append(rot, keys[r:]...)
					rot = append(rot, keys[:r]...)
					keys = rot
				}
				h = uint64(r)
			case MapShuffle:
				for i := 0; i < n-1; i++ {
					j := i + w.Map.Draw(n-i)
					keys[i], keys[j] = keys[j], keys[i]
					h = h*31 + uint64(j-i)
				}
			}
			if h != 0 {
				w.MapOrders++
			}
			if len(w.MapSites) < 4096 {
				w.MapSites = append(w.MapSites, site)
				w.MapSiteOrder = append(w.MapSiteOrder, h)
			}
		}
		for _, k := range keys {
			v, ok := m[k]
			if !ok {
				continue
			}
			if !yield(k, v) {
				return
			}
		}
	}
}
