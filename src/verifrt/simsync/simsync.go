// Package simsync mirrors package sync for instrumented coraza code.  Outside a
// scheduler run every type delegates to the real primitive.  Inside a run,
// blocking is simulated (a task that must wait is descheduled, never blocked in
// a real primitive), every operation is a pre-emption point, and the real
// primitive is still executed once the simulator has granted it, so that the
// race detector sees the program's true happens-before edges.
package simsync

import (
	"fmt"
	"sort"
	"sync"
	"unsafe"

	"github.com/corazawaf/coraza/v3/verifrt"
)

type Locker = sync.Locker

// site ids of synchronisation yields (small numbers; statement sites are hashes)
const (
	siteMutexLock = 1 + iota
	siteMutexUnlock
	siteRLock
	siteRUnlock
	siteOnce
	siteWGAdd
	siteWGWait
	siteMapLoad
	siteMapStore
	siteMapDelete
	siteMapRange
	sitePoolGet
	sitePoolPut
	siteCondWait
)

// ---------------------------------------------------------------- Mutex

type Mutex struct {
	real sync.Mutex
	held bool
}

//go:norace
func (m *Mutex) Lock() {
	if !verifrt.Active() {
		m.real.Lock()
		return
	}
	if verifrt.Aborting() {
		return
	}
	verifrt.Y(siteMutexLock)
	for m.held {
		verifrt.Block(unsafe.Pointer(m), siteMutexLock)
	}
	m.held = true
	m.real.Lock()
}

//go:norace
func (m *Mutex) TryLock() bool {
	if !verifrt.Active() {
		return m.real.TryLock()
	}
	if verifrt.Aborting() {
		return true
	}
	verifrt.Y(siteMutexLock)
	if m.held {
		return false
	}
	m.held = true
	m.real.Lock()
	return true
}

//go:norace
func (m *Mutex) Unlock() {
	if !verifrt.Active() {
		m.real.Unlock()
		return
	}
	if verifrt.Aborting() {
		if m.held {
			m.real.Unlock()
			m.held = false
		}
		return
	}
	if !m.held {
		panic("sync: unlock of unlocked mutex")
	}
	m.real.Unlock()
	m.held = false
	verifrt.WakeAll(unsafe.Pointer(m))
	verifrt.Y(siteMutexUnlock)
}

// ---------------------------------------------------------------- RWMutex

type RWMutex struct {
	real    sync.RWMutex
	writer  bool
	readers int
	// pending writers block new readers, as in the real RWMutex (this is what
	// makes a recursive RLock deadlock when a writer arrives in between)
	writersWaiting int
}

//go:norace
func (m *RWMutex) Lock() {
	if !verifrt.Active() {
		m.real.Lock()
		return
	}
	if verifrt.Aborting() {
		return
	}
	verifrt.Y(siteMutexLock)
	for m.writer || m.readers > 0 {
		m.writersWaiting++
		verifrt.Block(unsafe.Pointer(m), siteMutexLock)
		m.writersWaiting--
	}
	m.writer = true
	m.real.Lock()
}

//go:norace
func (m *RWMutex) Unlock() {
	if !verifrt.Active() {
		m.real.Unlock()
		return
	}
	if verifrt.Aborting() {
		return
	}
	if !m.writer {
		panic("sync: Unlock of unlocked RWMutex")
	}
	m.real.Unlock()
	m.writer = false
	verifrt.WakeAll(unsafe.Pointer(m))
	verifrt.Y(siteMutexUnlock)
}

//go:norace
func (m *RWMutex) RLock() {
	if !verifrt.Active() {
		m.real.RLock()
		return
	}
	if verifrt.Aborting() {
		return
	}
	verifrt.Y(siteRLock)
	for m.writer || m.writersWaiting > 0 {
		verifrt.Block(unsafe.Pointer(m), siteRLock)
	}
	m.readers++
	m.real.RLock()
}

//go:norace
func (m *RWMutex) RUnlock() {
	if !verifrt.Active() {
		m.real.RUnlock()
		return
	}
	if verifrt.Aborting() {
		return
	}
	if m.readers <= 0 {
		panic("sync: RUnlock of unlocked RWMutex")
	}
	m.real.RUnlock()
	m.readers--
	if m.readers == 0 {
		verifrt.WakeAll(unsafe.Pointer(m))
	}
	verifrt.Y(siteRUnlock)
}

//go:norace
func (m *RWMutex) TryLock() bool {
	if !verifrt.Active() {
		return m.real.TryLock()
	}
	verifrt.Y(siteMutexLock)
	if m.writer || m.readers > 0 {
		return false
	}
	m.writer = true
	m.real.Lock()
	return true
}

//go:norace
func (m *RWMutex) TryRLock() bool {
	if !verifrt.Active() {
		return m.real.TryRLock()
	}
	verifrt.Y(siteRLock)
	if m.writer {
		return false
	}
	m.readers++
	m.real.RLock()
	return true
}

func (m *RWMutex) RLocker() Locker { return (*rlocker)(m) }

type rlocker RWMutex

func (r *rlocker) Lock()   { (*RWMutex)(r).RLock() }
func (r *rlocker) Unlock() { (*RWMutex)(r).RUnlock() }

// ---------------------------------------------------------------- Once

type Once struct {
	m    Mutex
	done bool
}

func (o *Once) Do(f func()) {
	// The real Once publishes `done` with an atomic store after f returned and
	// reads it with an atomic load; taking the mutex on every call gives the
	// same edges (coarser, never missing).
	o.m.Lock()
	defer o.m.Unlock()
	if !o.done {
		defer func() { o.done = true }()
		f()
	}
}

func OnceFunc(f func()) func() {
	var once Once
	return func() { once.Do(f) }
}

func OnceValue[T any](f func() T) func() T {
	var once Once
	var r T
	return func() T {
		once.Do(func() { r = f() })
		return r
	}
}

func OnceValues[T1, T2 any](f func() (T1, T2)) func() (T1, T2) {
	var once Once
	var r1 T1
	var r2 T2
	return func() (T1, T2) {
		once.Do(func() { r1, r2 = f() })
		return r1, r2
	}
}

// ---------------------------------------------------------------- WaitGroup

type WaitGroup struct {
	real sync.WaitGroup
	n    int
}

//go:norace
func (wg *WaitGroup) Add(delta int) {
	if !verifrt.Active() {
		wg.real.Add(delta)
		return
	}
	if verifrt.Aborting() {
		return
	}
	verifrt.Y(siteWGAdd)
	wg.n += delta
	if wg.n < 0 {
		panic("sync: negative WaitGroup counter")
	}
	if delta < 0 {
		verifrt.RaceReleaseMerge(unsafe.Pointer(wg))
	}
	if wg.n == 0 {
		verifrt.WakeAll(unsafe.Pointer(wg))
	}
}

func (wg *WaitGroup) Done() { wg.Add(-1) }

//go:norace
func (wg *WaitGroup) Wait() {
	if !verifrt.Active() {
		wg.real.Wait()
		return
	}
	if verifrt.Aborting() {
		return
	}
	verifrt.Y(siteWGWait)
	for wg.n > 0 {
		verifrt.Block(unsafe.Pointer(wg), siteWGWait)
	}
	verifrt.RaceAcquire(unsafe.Pointer(wg))
}

func (wg *WaitGroup) Go(f func()) {
	wg.Add(1)
	verifrt.Go(func() {
		defer wg.Done()
		f()
	})
}

// ---------------------------------------------------------------- Cond

type Cond struct {
	L    Locker
	gen  int
	real *sync.Cond // pass-through (outside a simulation)
	mu   sync.Mutex
}

func NewCond(l Locker) *Cond { return &Cond{L: l} }

func (c *Cond) passthrough() *sync.Cond {
	c.mu.Lock()
	defer c.mu.Unlock()
	if c.real == nil {
		c.real = sync.NewCond(c.L)
	}
	return c.real
}

//go:norace
func (c *Cond) Wait() {
	if !verifrt.Active() {
		c.passthrough().Wait()
		return
	}
	g := c.gen
	c.L.Unlock()
	for c.gen == g {
		verifrt.Block(unsafe.Pointer(c), siteCondWait)
	}
	c.L.Lock()
}

//go:norace
func (c *Cond) Signal() {
	if !verifrt.Active() {
		c.passthrough().Signal()
		return
	}
	c.Broadcast() // a spurious wake-up is always allowed
}

//go:norace
func (c *Cond) Broadcast() {
	if !verifrt.Active() {
		c.passthrough().Broadcast()
		return
	}
	c.gen++
	verifrt.WakeAll(unsafe.Pointer(c))
}

// ---------------------------------------------------------------- Map

// Map wraps the real sync.Map (its internal atomics give the detector the real
// edges); every operation is a pre-emption point and Range iterates a snapshot
// of the keys in a deterministic order, re-loading each key at visit time.
type Map struct {
	real sync.Map
}

func (m *Map) Load(key any) (any, bool) {
	verifrt.Y(siteMapLoad)
	return m.real.Load(key)
}
func (m *Map) Store(key, value any) {
	verifrt.Y(siteMapStore)
	m.real.Store(key, value)
}
func (m *Map) LoadOrStore(key, value any) (any, bool) {
	verifrt.Y(siteMapStore)
	return m.real.LoadOrStore(key, value)
}
func (m *Map) LoadAndDelete(key any) (any, bool) {
	verifrt.Y(siteMapDelete)
	return m.real.LoadAndDelete(key)
}
func (m *Map) Delete(key any) {
	verifrt.Y(siteMapDelete)
	m.real.Delete(key)
}
func (m *Map) Swap(key, value any) (any, bool) {
	verifrt.Y(siteMapStore)
	return m.real.Swap(key, value)
}
func (m *Map) CompareAndSwap(key, old, new any) bool {
	verifrt.Y(siteMapStore)
	return m.real.CompareAndSwap(key, old, new)
}
func (m *Map) CompareAndDelete(key, old any) bool {
	verifrt.Y(siteMapDelete)
	return m.real.CompareAndDelete(key, old)
}
func (m *Map) Clear() {
	verifrt.Y(siteMapDelete)
	m.real.Clear()
}

func (m *Map) Range(f func(key, value any) bool) {
	verifrt.Y(siteMapRange)
	type kv struct {
		k any
		s string
	}
	var keys []kv
	m.real.Range(func(k, _ any) bool {
		keys = append(keys, kv{k, fmt.Sprint(k)})
		return true
	})
	sort.Slice(keys, func(i, j int) bool { return keys[i].s < keys[j].s })
	for _, e := range keys {
		verifrt.Y(siteMapRange)
		v, ok := m.real.Load(e.k)
		if !ok {
			continue
		}
		if !f(e.k, v) {
			return
		}
	}
}

// ---------------------------------------------------------------- Pool

// Pool is fully simulated: which object Get returns (or whether New is called)
// is a simulator decision.  Put(x) happens-before the Get that returns x, as
// with the real pool.
type Pool struct {
	noCopy [0]sync.Mutex
	mu     sync.Mutex // real; only contended outside a simulation
	// fixed storage and manual loops: append growth and copy() carry race
	// hooks inside the runtime even in norace functions
	items [poolCap]any
	n     int
	New   func() any
}

const poolCap = 64

func dataPtr(x any) unsafe.Pointer {
	return (*[2]unsafe.Pointer)(unsafe.Pointer(&x))[1]
}

//go:norace
func (p *Pool) Put(x any) {
	if x == nil {
		return
	}
	verifrt.Y(sitePoolPut)
	active := verifrt.Active()
	if !active {
		p.mu.Lock()
	}
	w := verifrt.W
	if w.PoolPolicy != verifrt.PoolNew && p.n < poolCap {
		verifrt.RaceReleaseMerge(dataPtr(x))
		p.items[p.n] = x
		p.n++
	}
	if !active {
		p.mu.Unlock()
	}
}

//go:norace
func (p *Pool) Get() any {
	verifrt.Y(sitePoolGet)
	active := verifrt.Active()
	if !active {
		p.mu.Lock()
	}
	w := verifrt.W
	var x any
	n := p.n
	if n > 0 {
		idx := -1
		switch w.PoolPolicy {
		case verifrt.PoolLIFO:
			idx = n - 1
		case verifrt.PoolFIFO:
			idx = 0
		case verifrt.PoolRandom:
			idx = w.PoolT.Draw(n+1) - 1 // -1 = New
		case verifrt.PoolDrop:
			if w.PoolT.Draw(4) == 3 {
				for i := 0; i < n; i++ {
					p.items[i] = nil
				}
				p.n = 0
				n = 0
			} else {
				idx = w.PoolT.Draw(n+1) - 1
			}
		}
		if idx >= 0 && idx < n {
			x = p.items[idx]
			for i := idx; i < n-1; i++ {
				p.items[i] = p.items[i+1]
			}
			p.items[n-1] = nil
			p.n = n - 1
			verifrt.RaceAcquire(dataPtr(x))
			w.PoolReuse++
		}
	}
	if !active {
		p.mu.Unlock()
	}
	if x == nil && p.New != nil {
		w.PoolNewObj++
		x = p.New()
	}
	return x
}
