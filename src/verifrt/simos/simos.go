// Package simos mirrors the part of package os that coraza uses.  Paths under
// Root ("/simfs") live on an in-memory simulated disk with an operation log and
// per-operation fault points; everything else (configuration files, stdout,
// stderr) passes through to the real os package.
package simos

import (
	"errors"
	"fmt"
	"io"
	"io/fs"
	"os"
	"path"
	"sort"
	"strings"
	"sync"
	"syscall"
	"time"

	"github.com/corazawaf/coraza/v3/verifrt"
)

const Root = "/simfs"

type (
	FileInfo  = fs.FileInfo
	FileMode  = fs.FileMode
	DirEntry  = fs.DirEntry
	PathError = fs.PathError
	Signal    = os.Signal
)

const (
	O_RDONLY = os.O_RDONLY
	O_WRONLY = os.O_WRONLY
	O_RDWR   = os.O_RDWR
	O_APPEND = os.O_APPEND
	O_CREATE = os.O_CREATE
	O_EXCL   = os.O_EXCL
	O_SYNC   = os.O_SYNC
	O_TRUNC  = os.O_TRUNC

	ModePerm   = fs.ModePerm
	ModeDir    = fs.ModeDir
	ModeAppend = fs.ModeAppend
	ModeType   = fs.ModeType

	PathSeparator     = os.PathSeparator
	PathListSeparator = os.PathListSeparator
	DevNull           = os.DevNull
)

var (
	ErrInvalid          = fs.ErrInvalid
	ErrPermission       = fs.ErrPermission
	ErrExist            = fs.ErrExist
	ErrNotExist         = fs.ErrNotExist
	ErrClosed           = fs.ErrClosed
	ErrNoDeadline       = os.ErrNoDeadline
	ErrDeadlineExceeded = os.ErrDeadlineExceeded
	ErrProcessDone      = os.ErrProcessDone

	Stdin  = &File{real: os.Stdin, name: "/dev/stdin"}
	Stdout = &File{real: os.Stdout, name: "/dev/stdout"}
	Stderr = &File{real: os.Stderr, name: "/dev/stderr"}

	Args = os.Args
)

// ---------------------------------------------------------------- disk

// Op is one entry of the disk operation log.
type Op struct {
	Idx   int    `json:"i"`
	Kind  string `json:"k"` // create open write read close remove mkdir writefile readfile stat rename
	Path  string `json:"p"`
	N     int    `json:"n,omitempty"`
	Err   string `json:"err,omitempty"`
	Fault string `json:"fault,omitempty"`
	Mark  int    `json:"mark"` // harness-defined (API call index)
}

type node struct {
	data   []byte
	dir    bool
	mode   fs.FileMode
	linked bool
}

// FS is the simulated disk.  A real mutex guards it (disk operations are rare
// and real file systems serialise them too).
type FS struct {
	mu      sync.Mutex
	nodes   map[string]*node
	Ops     []Op
	tempSeq int
	Mark    int
	// Decide is asked before every operation; it returns the fault kind to
	// inject ("" = none).  Kinds: create-fail write-error short-write
	// read-error short-read close-error remove-error mkdir-error disk-full.
	Decide   func(op *Op) string
	Capacity int64 // 0 = unlimited
	used     int64
	Fired    map[string]int
	OpenCnt  int
}

func NewFS() *FS {
	f := &FS{nodes: map[string]*node{}, Fired: map[string]int{}}
	f.nodes[Root] = &node{dir: true, mode: fs.ModeDir | 0o755, linked: true}
	f.nodes[Root+"/tmp"] = &node{dir: true, mode: fs.ModeDir | 0o777, linked: true}
	return f
}

func init() {
	verifrt.W.FS = NewFS()
	verifrt.OnInstall(func(w *verifrt.World) { w.FS = NewFS() })
}

// ResetDisk replaces the current world's disk with an empty one.
func ResetDisk() *FS {
	f := NewFS()
	verifrt.W.FS = f
	return f
}

// Disk returns the current world's simulated disk.
func Disk() *FS { return verifrt.W.FS.(*FS) }

func isSim(p string) bool {
	return p == Root || strings.HasPrefix(p, Root+"/")
}

func clean(p string) string {
	if p == "" {
		return p
	}
	return path.Clean(p)
}

// op logs an operation and asks for a fault decision.  Caller holds mu.
func (d *FS) op(kind, p string) (*Op, string) {
	d.Ops = append(d.Ops, Op{Idx: len(d.Ops), Kind: kind, Path: p, Mark: d.Mark})
	o := &d.Ops[len(d.Ops)-1]
	fault := ""
	if d.Decide != nil {
		fault = d.Decide(o)
	}
	if fault != "" {
		o.Fault = fault
		d.Fired[fault]++
	}
	return o, fault
}

func perr(op, p string, err error) error { return &fs.PathError{Op: op, Path: p, Err: err} }

// Files lists the regular files currently linked on the disk.
func (d *FS) Files() []string {
	d.mu.Lock()
	defer d.mu.Unlock()
	var out []string
	for p, n := range d.nodes {
		if !n.dir {
			out = append(out, p)
		}
	}
	sort.Strings(out)
	return out
}

// ReadAll returns the content of a simulated file (harness use; not logged).
func (d *FS) ReadAll(p string) ([]byte, bool) {
	d.mu.Lock()
	defer d.mu.Unlock()
	n, ok := d.nodes[clean(p)]
	if !ok || n.dir {
		return nil, false
	}
	return append([]byte(nil), n.data...), true
}

// MkdirAllQuiet creates directories without logging (harness set-up).
func (d *FS) MkdirAllQuiet(p string) {
	d.mu.Lock()
	defer d.mu.Unlock()
	d.mkdirAll(clean(p))
}

// WriteQuiet creates a file without logging (harness set-up).
func (d *FS) WriteQuiet(p string, data []byte) {
	d.mu.Lock()
	defer d.mu.Unlock()
	p = clean(p)
	d.mkdirAll(path.Dir(p))
	d.nodes[p] = &node{data: append([]byte(nil), data...), mode: 0o644, linked: true}
}

func (d *FS) mkdirAll(p string) {
	for q := p; isSim(q); q = path.Dir(q) {
		if _, ok := d.nodes[q]; !ok {
			d.nodes[q] = &node{dir: true, mode: fs.ModeDir | 0o755, linked: true}
		}
		if q == Root {
			break
		}
	}
}

func (d *FS) parentOK(p string) bool {
	n, ok := d.nodes[path.Dir(p)]
	return ok && n.dir
}

// ---------------------------------------------------------------- File

type File struct {
	real   *os.File
	d      *FS
	n      *node
	name   string
	off    int64
	flag   int
	closed bool
}

func (f *File) Name() string { return f.name }

func (f *File) Fd() uintptr {
	if f.real != nil {
		return f.real.Fd()
	}
	return ^uintptr(0)
}

func (f *File) Write(b []byte) (int, error) {
	if f.real != nil {
		return f.real.Write(b)
	}
	d := f.d
	d.mu.Lock()
	defer d.mu.Unlock()
	o, fault := d.op("write", f.name)
	if f.closed {
		o.Err = "closed"
		return 0, perr("write", f.name, fs.ErrClosed)
	}
	if f.flag&(O_WRONLY|O_RDWR) == 0 {
		o.Err = "EBADF"
		return 0, perr("write", f.name, syscall.EBADF)
	}
	n := len(b)
	var err error
	switch fault {
	case "write-error":
		n, err = 0, perr("write", f.name, syscall.EIO)
	case "short-write":
		n, err = len(b)/2, perr("write", f.name, syscall.ENOSPC)
	case "disk-full":
		n, err = 0, perr("write", f.name, syscall.ENOSPC)
	}
	if err == nil && d.Capacity > 0 && d.used+int64(n) > d.Capacity {
		n = int(d.Capacity - d.used)
		if n < 0 {
			n = 0
		}
		err = perr("write", f.name, syscall.ENOSPC)
		o.Fault = "capacity"
		d.Fired["capacity"]++
	}
	if n > 0 {
		if f.flag&O_APPEND != 0 {
			f.off = int64(len(f.n.data))
		}
		end := f.off + int64(n)
		if end > int64(len(f.n.data)) {
			d.used += end - int64(len(f.n.data))
			f.n.data = append(f.n.data, make([]byte, end-int64(len(f.n.data)))...)
		}
		copy(f.n.data[f.off:end], b[:n])
		f.off = end
	}
	o.N = n
	if err != nil {
		o.Err = err.Error()
	}
	return n, err
}

func (f *File) WriteString(s string) (int, error) { return f.Write([]byte(s)) }

func (f *File) WriteAt(b []byte, off int64) (int, error) {
	if f.real != nil {
		return f.real.WriteAt(b, off)
	}
	d := f.d
	d.mu.Lock()
	save := f.off
	f.off = off
	d.mu.Unlock()
	n, err := f.Write(b)
	d.mu.Lock()
	f.off = save
	d.mu.Unlock()
	return n, err
}

func (f *File) Read(b []byte) (int, error) {
	if f.real != nil {
		return f.real.Read(b)
	}
	d := f.d
	d.mu.Lock()
	defer d.mu.Unlock()
	n, err := f.readAt(b, f.off, "read", false)
	f.off += int64(n)
	return n, err
}

func (f *File) ReadAt(b []byte, off int64) (int, error) {
	if f.real != nil {
		return f.real.ReadAt(b, off)
	}
	d := f.d
	d.mu.Lock()
	defer d.mu.Unlock()
	return f.readAt(b, off, "read", true)
}

func (f *File) readAt(b []byte, off int64, kind string, full bool) (int, error) {
	d := f.d
	o, fault := d.op(kind, f.name)
	if full && len(b) == 0 && fault == "" {
		return 0, nil // os.File.ReadAt with an empty buffer does not touch the descriptor
	}
	if f.closed {
		o.Err = "closed"
		return 0, perr("read", f.name, fs.ErrClosed)
	}
	if fault == "read-error" {
		o.Err = "EIO"
		return 0, perr("read", f.name, syscall.EIO)
	}
	if len(b) == 0 {
		return 0, nil
	}
	if f.flag&O_WRONLY != 0 {
		o.Err = "EBADF"
		return 0, perr("read", f.name, syscall.EBADF)
	}
	if off >= int64(len(f.n.data)) {
		o.Err = "EOF"
		return 0, io.EOF
	}
	n := copy(b, f.n.data[off:])
	if fault == "short-read" && !full && n > 1 {
		n = n / 2
	}
	o.N = n
	if full && n < len(b) {
		o.Err = "EOF"
		return n, io.EOF
	}
	return n, nil
}

func (f *File) Seek(offset int64, whence int) (int64, error) {
	if f.real != nil {
		return f.real.Seek(offset, whence)
	}
	d := f.d
	d.mu.Lock()
	defer d.mu.Unlock()
	if f.closed {
		return 0, perr("seek", f.name, fs.ErrClosed)
	}
	switch whence {
	case io.SeekStart:
		f.off = offset
	case io.SeekCurrent:
		f.off += offset
	case io.SeekEnd:
		f.off = int64(len(f.n.data)) + offset
	}
	if f.off < 0 {
		f.off = 0
		return 0, perr("seek", f.name, syscall.EINVAL)
	}
	return f.off, nil
}

func (f *File) Close() error {
	if f.real != nil {
		return f.real.Close()
	}
	d := f.d
	d.mu.Lock()
	defer d.mu.Unlock()
	o, fault := d.op("close", f.name)
	if f.closed {
		o.Err = "closed"
		return perr("close", f.name, fs.ErrClosed)
	}
	f.closed = true
	d.OpenCnt--
	if fault == "close-error" {
		o.Err = "EIO"
		return perr("close", f.name, syscall.EIO)
	}
	return nil
}

func (f *File) Sync() error {
	if f.real != nil {
		return f.real.Sync()
	}
	return nil
}

func (f *File) Truncate(size int64) error {
	if f.real != nil {
		return f.real.Truncate(size)
	}
	d := f.d
	d.mu.Lock()
	defer d.mu.Unlock()
	if size < int64(len(f.n.data)) {
		d.used -= int64(len(f.n.data)) - size
		f.n.data = f.n.data[:size]
	} else {
		f.n.data = append(f.n.data, make([]byte, size-int64(len(f.n.data)))...)
	}
	return nil
}

func (f *File) Chmod(mode FileMode) error {
	if f.real != nil {
		return f.real.Chmod(mode)
	}
	return nil
}

type memInfo struct {
	name string
	size int64
	mode fs.FileMode
}

func (i memInfo) Name() string       { return i.name }
func (i memInfo) Size() int64        { return i.size }
func (i memInfo) Mode() fs.FileMode  { return i.mode }
func (i memInfo) ModTime() time.Time { return time.Unix(0, verifrt.Epoch).UTC() }
func (i memInfo) IsDir() bool        { return i.mode.IsDir() }
func (i memInfo) Sys() any           { return nil }

func (f *File) Stat() (FileInfo, error) {
	if f.real != nil {
		return f.real.Stat()
	}
	d := f.d
	d.mu.Lock()
	defer d.mu.Unlock()
	return memInfo{name: path.Base(f.name), size: int64(len(f.n.data)), mode: f.n.mode}, nil
}

func (f *File) ReadDir(n int) ([]DirEntry, error) {
	if f.real != nil {
		return f.real.ReadDir(n)
	}
	return nil, perr("readdir", f.name, syscall.ENOTDIR)
}

func (f *File) Readdir(n int) ([]FileInfo, error) {
	if f.real != nil {
		return f.real.Readdir(n)
	}
	return nil, perr("readdir", f.name, syscall.ENOTDIR)
}

func (f *File) Readdirnames(n int) ([]string, error) {
	if f.real != nil {
		return f.real.Readdirnames(n)
	}
	return nil, perr("readdir", f.name, syscall.ENOTDIR)
}

// ---------------------------------------------------------------- functions

func TempDir() string { return Root + "/tmp" }

func OpenFile(name string, flag int, perm FileMode) (*File, error) {
	if !isSim(name) {
		rf, err := os.OpenFile(name, flag, perm)
		if err != nil {
			return nil, err
		}
		return &File{real: rf, name: name}, nil
	}
	d := Disk()
	d.mu.Lock()
	defer d.mu.Unlock()
	return d.openFile(clean(name), flag, perm)
}

func (d *FS) openFile(p string, flag int, perm FileMode) (*File, error) {
	n, exists := d.nodes[p]
	kind := "open"
	if flag&O_CREATE != 0 && !exists {
		kind = "create"
	}
	o, fault := d.op(kind, p)
	if fault == "create-fail" || fault == "open-fail" {
		o.Err = "EACCES"
		return nil, perr("open", p, syscall.EACCES)
	}
	if exists && n.dir {
		if flag&(O_WRONLY|O_RDWR) != 0 {
			o.Err = "EISDIR"
			return nil, perr("open", p, syscall.EISDIR)
		}
		return &File{d: d, n: n, name: p, flag: flag}, nil
	}
	if !exists {
		if flag&O_CREATE == 0 {
			o.Err = "ENOENT"
			return nil, perr("open", p, syscall.ENOENT)
		}
		if !d.parentOK(p) {
			o.Err = "ENOENT"
			return nil, perr("open", p, syscall.ENOENT)
		}
		n = &node{mode: perm & fs.ModePerm, linked: true}
		d.nodes[p] = n
	} else if flag&O_CREATE != 0 && flag&O_EXCL != 0 {
		o.Err = "EEXIST"
		return nil, perr("open", p, syscall.EEXIST)
	}
	if flag&O_TRUNC != 0 {
		d.used -= int64(len(n.data))
		n.data = nil
	}
	d.OpenCnt++
	return &File{d: d, n: n, name: p, flag: flag}, nil
}

func Open(name string) (*File, error)   { return OpenFile(name, O_RDONLY, 0) }
func Create(name string) (*File, error) { return OpenFile(name, O_RDWR|O_CREATE|O_TRUNC, 0o666) }

func CreateTemp(dir, pattern string) (*File, error) {
	if dir == "" {
		dir = TempDir()
	}
	if !isSim(dir) {
		rf, err := os.CreateTemp(dir, pattern)
		if err != nil {
			return nil, err
		}
		return &File{real: rf, name: rf.Name()}, nil
	}
	d := Disk()
	d.mu.Lock()
	defer d.mu.Unlock()
	prefix, suffix := pattern, ""
	if i := strings.LastIndexByte(pattern, '*'); i >= 0 {
		prefix, suffix = pattern[:i], pattern[i+1:]
	}
	if strings.ContainsRune(pattern, '/') {
		return nil, perr("createtemp", pattern, errors.New("pattern contains path separator"))
	}
	d.tempSeq++
	p := clean(dir) + "/" + fmt.Sprintf("%s%09d%s", prefix, d.tempSeq, suffix)
	return d.openFile(p, O_RDWR|O_CREATE|O_EXCL, 0o600)
}

func MkdirTemp(dir, pattern string) (string, error) {
	if dir == "" {
		dir = TempDir()
	}
	if !isSim(dir) {
		return os.MkdirTemp(dir, pattern)
	}
	d := Disk()
	d.mu.Lock()
	d.tempSeq++
	p := clean(dir) + "/" + fmt.Sprintf("%s%09d", strings.ReplaceAll(pattern, "*", ""), d.tempSeq)
	d.mu.Unlock()
	return p, Mkdir(p, 0o700)
}

func Remove(name string) error {
	if !isSim(name) {
		return os.Remove(name)
	}
	d := Disk()
	d.mu.Lock()
	defer d.mu.Unlock()
	p := clean(name)
	o, fault := d.op("remove", p)
	if fault == "remove-error" {
		o.Err = "EACCES"
		return perr("remove", p, syscall.EACCES)
	}
	n, ok := d.nodes[p]
	if !ok {
		o.Err = "ENOENT"
		return perr("remove", p, syscall.ENOENT)
	}
	if n.dir {
		for q := range d.nodes {
			if strings.HasPrefix(q, p+"/") {
				o.Err = "ENOTEMPTY"
				return perr("remove", p, syscall.ENOTEMPTY)
			}
		}
	}
	n.linked = false
	d.used -= int64(len(n.data))
	delete(d.nodes, p)
	return nil
}

func RemoveAll(name string) error {
	if !isSim(name) {
		return os.RemoveAll(name)
	}
	d := Disk()
	d.mu.Lock()
	defer d.mu.Unlock()
	p := clean(name)
	o, fault := d.op("remove", p)
	if fault == "remove-error" {
		o.Err = "EACCES"
		return perr("removeall", p, syscall.EACCES)
	}
	for q, n := range d.nodes {
		if q == p || strings.HasPrefix(q, p+"/") {
			n.linked = false
			d.used -= int64(len(n.data))
			delete(d.nodes, q)
		}
	}
	return nil
}

func Mkdir(name string, perm FileMode) error {
	if !isSim(name) {
		return os.Mkdir(name, perm)
	}
	d := Disk()
	d.mu.Lock()
	defer d.mu.Unlock()
	p := clean(name)
	o, fault := d.op("mkdir", p)
	if fault == "mkdir-error" {
		o.Err = "EACCES"
		return perr("mkdir", p, syscall.EACCES)
	}
	if _, ok := d.nodes[p]; ok {
		o.Err = "EEXIST"
		return perr("mkdir", p, syscall.EEXIST)
	}
	if !d.parentOK(p) {
		o.Err = "ENOENT"
		return perr("mkdir", p, syscall.ENOENT)
	}
	d.nodes[p] = &node{dir: true, mode: fs.ModeDir | perm&fs.ModePerm, linked: true}
	return nil
}

func MkdirAll(name string, perm FileMode) error {
	if !isSim(name) {
		return os.MkdirAll(name, perm)
	}
	d := Disk()
	d.mu.Lock()
	defer d.mu.Unlock()
	p := clean(name)
	o, fault := d.op("mkdir", p)
	if fault == "mkdir-error" {
		o.Err = "EACCES"
		return perr("mkdir", p, syscall.EACCES)
	}
	if n, ok := d.nodes[p]; ok && !n.dir {
		o.Err = "ENOTDIR"
		return perr("mkdir", p, syscall.ENOTDIR)
	}
	d.mkdirAll(p)
	return nil
}

func WriteFile(name string, data []byte, perm FileMode) error {
	if !isSim(name) {
		return os.WriteFile(name, data, perm)
	}
	f, err := OpenFile(name, O_WRONLY|O_CREATE|O_TRUNC, perm)
	if err != nil {
		return err
	}
	_, err = f.Write(data)
	if err1 := f.Close(); err1 != nil && err == nil {
		err = err1
	}
	return err
}

func ReadFile(name string) ([]byte, error) {
	if !isSim(name) {
		return os.ReadFile(name)
	}
	f, err := Open(name)
	if err != nil {
		return nil, err
	}
	defer f.Close()
	return io.ReadAll(f)
}

func Stat(name string) (FileInfo, error) {
	if !isSim(name) {
		return os.Stat(name)
	}
	d := Disk()
	d.mu.Lock()
	defer d.mu.Unlock()
	p := clean(name)
	n, ok := d.nodes[p]
	if !ok {
		return nil, perr("stat", p, syscall.ENOENT)
	}
	return memInfo{name: path.Base(p), size: int64(len(n.data)), mode: n.mode}, nil
}

func Lstat(name string) (FileInfo, error) { return Stat(name) }

func Rename(oldpath, newpath string) error {
	if !isSim(oldpath) && !isSim(newpath) {
		return os.Rename(oldpath, newpath)
	}
	d := Disk()
	d.mu.Lock()
	defer d.mu.Unlock()
	op, np := clean(oldpath), clean(newpath)
	o, _ := d.op("rename", op)
	n, ok := d.nodes[op]
	if !ok {
		o.Err = "ENOENT"
		return &os.LinkError{Op: "rename", Old: op, New: np, Err: syscall.ENOENT}
	}
	delete(d.nodes, op)
	d.nodes[np] = n
	return nil
}

type memDirEntry struct{ memInfo }

func (e memDirEntry) Type() fs.FileMode          { return e.mode.Type() }
func (e memDirEntry) Info() (fs.FileInfo, error) { return e.memInfo, nil }

func ReadDir(name string) ([]DirEntry, error) {
	if !isSim(name) {
		return os.ReadDir(name)
	}
	d := Disk()
	d.mu.Lock()
	defer d.mu.Unlock()
	p := clean(name)
	n, ok := d.nodes[p]
	if !ok || !n.dir {
		return nil, perr("readdir", p, syscall.ENOENT)
	}
	var out []DirEntry
	for q, c := range d.nodes {
		if path.Dir(q) == p && q != p {
			out = append(out, memDirEntry{memInfo{name: path.Base(q), size: int64(len(c.data)), mode: c.mode}})
		}
	}
	sort.Slice(out, func(i, j int) bool { return out[i].Name() < out[j].Name() })
	return out, nil
}

func Chmod(name string, mode FileMode) error {
	if !isSim(name) {
		return os.Chmod(name, mode)
	}
	return nil
}

func Truncate(name string, size int64) error {
	if !isSim(name) {
		return os.Truncate(name, size)
	}
	f, err := OpenFile(name, O_WRONLY, 0)
	if err != nil {
		return err
	}
	defer f.Close()
	return f.Truncate(size)
}

// ---------------------------------------------------------------- environment (simulated overlay)

var (
	envMu  sync.Mutex
	envSet = map[string]*string{}
)

// ResetEnv drops every variable set through this package.
func ResetEnv() {
	envMu.Lock()
	envSet = map[string]*string{}
	envMu.Unlock()
}

func Setenv(key, value string) error {
	if key == "" || strings.ContainsAny(key, "=\x00") || strings.ContainsRune(value, 0) {
		return &os.SyscallError{Syscall: "setenv", Err: syscall.EINVAL}
	}
	envMu.Lock()
	v := value
	envSet[key] = &v
	envMu.Unlock()
	return nil
}

func Unsetenv(key string) error {
	envMu.Lock()
	envSet[key] = nil
	envMu.Unlock()
	return nil
}

func LookupEnv(key string) (string, bool) {
	envMu.Lock()
	v, ok := envSet[key]
	envMu.Unlock()
	if ok {
		if v == nil {
			return "", false
		}
		return *v, true
	}
	return os.LookupEnv(key)
}

func Getenv(key string) string { v, _ := LookupEnv(key); return v }

func Environ() []string {
	envMu.Lock()
	defer envMu.Unlock()
	var out []string
	for _, kv := range os.Environ() {
		k, _, _ := strings.Cut(kv, "=")
		if _, ok := envSet[k]; !ok {
			out = append(out, kv)
		}
	}
	var keys []string
	for k, v := range envSet {
		if v != nil {
			keys = append(keys, k)
		}
	}
	sort.Strings(keys)
	for _, k := range keys {
		out = append(out, k+"="+*envSet[k])
	}
	return out
}

func Clearenv()                                     { ResetEnv() }
func ExpandEnv(s string) string                     { return os.Expand(s, Getenv) }
func Expand(s string, m func(string) string) string { return os.Expand(s, m) }

// ---------------------------------------------------------------- pass-through

func Getwd() (string, error)                  { return os.Getwd() }
func Chdir(dir string) error                  { return os.Chdir(dir) }
func Getpid() int                             { return os.Getpid() }
func Getppid() int                            { return os.Getppid() }
func Getuid() int                             { return os.Getuid() }
func Getgid() int                             { return os.Getgid() }
func Hostname() (string, error)               { return "simhost", nil }
func Exit(code int)                           { os.Exit(code) }
func Executable() (string, error)             { return os.Executable() }
func UserHomeDir() (string, error)            { return os.UserHomeDir() }
func UserCacheDir() (string, error)           { return os.UserCacheDir() }
func UserConfigDir() (string, error)          { return os.UserConfigDir() }
func IsExist(err error) bool                  { return os.IsExist(err) }
func IsNotExist(err error) bool               { return os.IsNotExist(err) }
func IsPermission(err error) bool             { return os.IsPermission(err) }
func IsTimeout(err error) bool                { return os.IsTimeout(err) }
func IsPathSeparator(c uint8) bool            { return os.IsPathSeparator(c) }
func DirFS(dir string) fs.FS                  { return os.DirFS(dir) }
func SameFile(a, b FileInfo) bool             { return os.SameFile(a, b) }
func NewSyscallError(s string, e error) error { return os.NewSyscallError(s, e) }
func Getpagesize() int                        { return os.Getpagesize() }

// ---------------------------------------------------------------- rarely used API, passed through
// (present so that an edit of the repository that starts using them still builds)

type (
	Process      = os.Process
	ProcAttr     = os.ProcAttr
	ProcessState = os.ProcessState
	SyscallError = os.SyscallError
	LinkError    = os.LinkError
)

var (
	Interrupt = os.Interrupt
	Kill      = os.Kill
)

func FindProcess(pid int) (*Process, error) { return os.FindProcess(pid) }
func StartProcess(name string, argv []string, attr *ProcAttr) (*Process, error) {
	return os.StartProcess(name, argv, attr)
}
func NewFile(fd uintptr, name string) *File {
	rf := os.NewFile(fd, name)
	if rf == nil {
		return nil
	}
	return &File{real: rf, name: name}
}
func Pipe() (r *File, w *File, err error) {
	rr, ww, err := os.Pipe()
	if err != nil {
		return nil, nil, err
	}
	return &File{real: rr, name: "|0"}, &File{real: ww, name: "|1"}, nil
}
func Chtimes(name string, atime, mtime time.Time) error {
	if !isSim(name) {
		return os.Chtimes(name, atime, mtime)
	}
	return nil
}
func Chown(name string, uid, gid int) error {
	if !isSim(name) {
		return os.Chown(name, uid, gid)
	}
	return nil
}
func Lchown(name string, uid, gid int) error { return Chown(name, uid, gid) }
func Link(oldname, newname string) error {
	if !isSim(oldname) && !isSim(newname) {
		return os.Link(oldname, newname)
	}
	return &os.LinkError{Op: "link", Old: oldname, New: newname, Err: syscall.ENOTSUP}
}
func Symlink(oldname, newname string) error {
	if !isSim(newname) {
		return os.Symlink(oldname, newname)
	}
	return &os.LinkError{Op: "symlink", Old: oldname, New: newname, Err: syscall.ENOTSUP}
}
func Readlink(name string) (string, error) {
	if !isSim(name) {
		return os.Readlink(name)
	}
	return "", perr("readlink", name, syscall.EINVAL)
}

func (f *File) SetDeadline(t time.Time) error      { return nil }
func (f *File) SetReadDeadline(t time.Time) error  { return nil }
func (f *File) SetWriteDeadline(t time.Time) error { return nil }
func (f *File) Chown(uid, gid int) error {
	if f.real != nil {
		return f.real.Chown(uid, gid)
	}
	return nil
}
func (f *File) ReadFrom(r io.Reader) (int64, error) {
	if f.real != nil {
		return f.real.ReadFrom(r)
	}
	return io.Copy(struct{ io.Writer }{f}, r)
}
func (f *File) WriteTo(w io.Writer) (int64, error) {
	if f.real != nil {
		return f.real.WriteTo(w)
	}
	return io.Copy(w, struct{ io.Reader }{f})
}

// remaining os API, passed through unchanged
const (
	SEEK_SET = os.SEEK_SET
	SEEK_CUR = os.SEEK_CUR
	SEEK_END = os.SEEK_END
)

func Getegid() int              { return os.Getegid() }
func Geteuid() int              { return os.Geteuid() }
func Getgroups() ([]int, error) { return os.Getgroups() }
func CopyFS(dir string, fsys fs.FS) error {
	if isSim(dir) {
		return &fs.PathError{Op: "copyfs", Path: dir, Err: errors.New("not supported on the simulated disk")}
	}
	return os.CopyFS(dir, fsys)
}
