package main

import (
	"fmt"
	"reflect"
	"sort"
	"strings"

	"github.com/corazawaf/coraza/v3/experimental/plugins"
	"github.com/corazawaf/coraza/v3/internal/transformations"
	"github.com/corazawaf/coraza/v3/types"
	"github.com/corazawaf/coraza/v3/verifrt"
)

// C12 - sharing transformation work between rules never substitutes a wrong value.
//
// Simulated: the position component of the per-phase transformation cache key
// (it depends on the iteration order of the collections, hence on the map-order
// "scheduler") and rule sequences built to collide.  Oracles:
//   (1) reference transformation model: the same rules without transformations
//       reveal the values each rule selects; the registered transformation
//       functions applied directly give the values the rule must have seen;
//   (2) differential: the same rules with a distinct identity transformation
//       prefixed to every rule cannot share any cache entry between rules.

const c12IdentN = 12
const identTotal = 64

func init() {
	for i := 0; i < identTotal; i++ {
		plugins.RegisterTransformation(fmt.Sprintf("vident%d", i), func(s string) (string, bool, error) { return s, false, nil })
	}
}

var c12Trans = []string{"trimLeft", "trimRight", "lowercase", "uppercase", "urlDecode", "trim", "removeWhitespace", "compressWhitespace", "hexEncode", "base64Encode", "length", "removeNulls", "sha1", "htmlEntityDecode", "removeComments", "hexDecode", "hexDecode", "base64Decode"}

var c12Static = []string{"ARGS_GET", "ARGS_GET:a", "ARGS_GET:b", "ARGS_GET:/^a/", "ARGS_GET:/./", "ARGS_GET|!ARGS_GET:x", "ARGS_GET|!ARGS_GET:a", "ARGS_GET|!ARGS_GET:a", "ARGS", "ARGS:a", "ARGS|!ARGS:x", "ARGS|!ARGS:a", "ARGS_GET|!ARGS_GET:A",
	"ARGS_NAMES", "ARGS_GET_NAMES", "ARGS_POST", "ARGS_POST:a", "ARGS_POST|!ARGS_POST:x", "REQUEST_HEADERS", "REQUEST_HEADERS:x-a", "REQUEST_HEADERS|!REQUEST_HEADERS:host",
	"REQUEST_COOKIES", "REQUEST_COOKIES:a", "REQUEST_COOKIES_NAMES", "REQUEST_URI", "QUERY_STRING", "ARGS_GET:x", "ARGS_GET|!ARGS_GET:/^x/"}
var c12Dynamic = []string{"MATCHED_VAR", "MATCHED_VARS", "MATCHED_VAR_NAME", "MATCHED_VARS_NAMES", "RULE:id", "&ARGS_GET", "&ARGS", "TX:/^\\d$/", "MATCHED_VARS:/a/"}

type c12Rule struct {
	Multi   bool     `json:"multi_match,omitempty"`
	Phase   int      `json:"phase,omitempty"` // 0 = the scenario's phase
	ID      int      `json:"id"`
	Targets string   `json:"targets"`
	Trans   []string `json:"t"`
	Chain   *c12Rule `json:"chain,omitempty"`
	Dynamic bool     `json:"dynamic,omitempty"`
}

type c12Scenario struct {
	Phase   int       `json:"phase"`
	Rules   []c12Rule `json:"rules"`
	URI     string    `json:"uri"`
	Headers []Header  `json:"headers"`
	Body    string    `json:"body"`
	Dynamic bool      `json:"dynamic"`
}

func c12GenRule(t *verifrt.Tape, family []string, id int, depth int, allowDyn bool) c12Rule {
	r := c12Rule{ID: id}
	nt := 1 + t.Draw(3)/2
	var ts []string
	for i := 0; i < nt; i++ {
		if allowDyn && t.Draw(4) == 0 {
			ts = append(ts, pick(t, c12Dynamic))
			r.Dynamic = true
		} else {
			ts = append(ts, pick(t, c12Static))
		}
	}
	r.Targets = strings.Join(ts, "|")
	k := t.Draw(len(family) + 1)
	r.Trans = append(r.Trans, family[:k]...)
	if t.Draw(3) == 0 {
		r.Trans = append(r.Trans, pick(t, c12Trans))
	}
	if allowDyn && t.Draw(3) == 0 {
		// multiMatch bypasses the cache; only the differential oracle applies
		r.Multi = true
		r.Dynamic = true
	}
	if depth == 0 && t.Draw(5) == 0 {
		c := c12GenRule(t, family, 0, 1, allowDyn)
		r.Chain = &c
		if c.Dynamic {
			r.Dynamic = true
		}
	}
	return r
}

func c12Gen(t *verifrt.Tape) *c12Scenario {
	sc := &c12Scenario{Phase: 1 + t.Draw(2)}
	nf := 1 + t.Draw(4)
	var family []string
	for i := 0; i < nf; i++ {
		if i > 0 && t.Draw(3) == 0 {
			family = append(family, family[i-1]) // the same step twice (double decoding)
		} else {
			family = append(family, pick(t, c12Trans))
		}
	}
	// chain mode: values that are successive transformation results of each
	// other under one repeated name, and a family made of exactly those steps
	type chainT struct {
		vals  []string
		trans []string
	}
	chains := []chainT{
		// note: the query parser already decodes one level
		{[]string{"%25252525253Cs", "%252525253Cs", "%2525253Cs", "%25253Cs", "%253Cs", "%3Cs"}, []string{"urlDecode", "urlDecode", "lowercase"}},
		{[]string{"%2525252541b", "%25252541b", "%252541b", "%2541b", "%41b", "Ab"}, []string{"urlDecode", "lowercase", "urlDecode"}},
		{[]string{"  Ab ", " Ab ", "Ab ", "Ab", "ab"}, []string{"trimLeft", "trimRight", "lowercase"}},
		{[]string{"3334333133343334", "34313434", "4144", "AD"}, []string{"hexDecode", "hexDecode", "lowercase"}},
	}
	// equal-length neighbours that collide under a weak fingerprint of the source
	// value (FNV-1a/FNV-1 32, CRC-32 IEEE / Castagnoli, Adler-32, common prefix,
	// common suffix): an entry that remembers less than the value itself is
	// reached in shift mode, where neighbours swap positions between rules
	for _, p := range [][2]string{
		{"dFwqXZ4O", "LMgmKpwn"}, {"s2EOP0hY", "891I4gmM"}, {"XmBSkAwk", "dnMDOHDF"},
		{"7sdF9yyF", "Y3tF5svs"}, {"dWNZU6sr", "13Qu3uWn"},
		{"JU3mi7pB", "zUM5vBWf"}, {"Ze8bSQ6O", "FqDEI1Vh"},
		{"MrDZbTRz", "QOWm7Msc"}, {"mAFz7doi", "JOCIJC10"},
		{"mXnMgYav", "wWVDmryW"}, {"VYHLg4o4", "u9iA08zG"},
		{"QwErTyU1x", "QwErTyU2x"}, {"1xQwErTyU", "2xQwErTyU"}, {"ad", "bc"},
	} {
		chains = append(chains, chainT{[]string{p[0], p[1], p[0], p[1], p[0]}, []string{"lowercase", "urlDecode", "lowercase"}})
	}
	var chain *chainT
	if t.Draw(3) == 0 {
		// the first four (transformation chains) and the collision pairs get equal shares
		if t.Draw(2) == 0 {
			chain = &chains[t.Draw(4)]
		} else {
			chain = &chains[4+t.Draw(len(chains)-4)]
		}
		family = append([]string(nil), chain.trans[:2+t.Draw(2)]...)
	}
	allowDyn := chain == nil && t.Draw(3) == 0
	n := 2 + t.Draw(5)
	if chain != nil && n < 3 {
		n = 3
	}
	// shift mode (half of the chain-mode runs): every rule looks at one base
	// target or at the same target minus the name that sorts first, so that the
	// values of the repeated name move by exactly one position between rules
	shift := chain != nil && t.Draw(2) == 0
	base := pick(t, []string{"ARGS_GET", "ARGS", "ARGS_GET"})
	// multi-seed mode (a tenth of the other runs): the first rule walks the whole
	// family with multiMatch, the others are plain rules on the same target with
	// prefixes of the family - whatever the multiMatch path leaves behind must not
	// be taken for a plain rule's value; values are small byte soups on which
	// transformation steps behave unusually
	multiSeed := chain == nil && t.Draw(10) == 0
	for i := 0; i < n; i++ {
		if multiSeed {
			r := c12Rule{ID: 201 + i, Targets: base}
			if i == 0 {
				r.Multi, r.Dynamic = true, true
				r.Trans = append(r.Trans, family...)
				sc.Dynamic = true
			} else {
				r.Trans = append(r.Trans, family[:1+t.Draw(len(family))]...)
			}
			sc.Rules = append(sc.Rules, r)
			continue
		}
		if shift {
			r := c12Rule{ID: 201 + i, Targets: base}
			if t.Draw(2) == 0 {
				r.Targets = base + "|!" + base + ":a"
			}
			r.Trans = append(r.Trans, family[:1+t.Draw(len(family))]...)
			sc.Rules = append(sc.Rules, r)
			continue
		}
		r := c12GenRule(t, family, 201+i, 0, allowDyn)
		if sc.Phase == 2 && t.Draw(4) == 0 {
			r.Phase = 1 // the cache must not carry anything from phase 1 into phase 2
		}
		if r.Dynamic {
			sc.Dynamic = true
		}
		sc.Rules = append(sc.Rules, r)
	}
	names := []string{"a", "a", "a", "b", "x", "A", "ab"}
	if chain != nil {
		names = []string{"a", "b", "b", "b"}
	}
	vals := []string{"", "", "Ab", "aB", "AB", "ab", "Q%41", " x ", "a+B", "Ab", "<!--c-->Z", "&amp;", "4142", "4a4B", "QUI=",
		// chains x -> T(x) -> T(T(x)) present side by side
		"%252541b", "%2541b", "%41b", "Ab", "ab", "  ab ", " ab", "343134", "3431", "41",
		// equal-length pairs that collide under weak fingerprints (byte sum, FNV-1a 32)
		"ba", "XmBSkAwk", "dnMDOHDF", "bc", "ad",
		// inputs on which a transformation step changes the value in an unusual
		// way (NUL entity, invalid UTF-8, comment opener without end)
		"a%26%230b", "a%26%230;b", "x%ffy", "x%ff y", "a/*b", "%26lt;b",
		// values that a transformation step reduces to the empty string
		"+", "%20%09+", "%00", "/**/", "%00%00", "+%00"}
	if chain != nil {
		vals = chain.vals
	}
	if multiSeed {
		vals = []string{"a%26%230b", "a%26%230;b", "x%ffy", "x%ff y", "a/*b", "%26lt;b", "%26%23x0;", "a%00b", "%c3%28", "a%26%2365b", "a%26amp", " %ff "}
		for i := 0; i < 6; i++ {
			var sb strings.Builder
			for j, m := 0, 1+t.Draw(6); j < m; j++ {
				sb.WriteString(pick(t, []string{"%26", "%23", "0", ";", "x", "%ff", "%00", "+", "/", "*", "<", "-", "%25", "A", "%c3", "%a0"}))
			}
			vals = append(vals, sb.String())
		}
	}
	q := func() string {
		var ps []string
		for i, n := 0, 1+t.Draw(6); i < n; i++ {
			ps = append(ps, pick(t, names)+"="+pick(t, vals))
		}
		return strings.Join(ps, "&")
	}
	sc.URI = "/p?" + q()
	if shift {
		// one value under the first name, then consecutive chain elements under the repeated name
		ps := []string{"a=" + pick(t, vals)}
		start := t.Draw(len(vals))
		for i, n := 0, 2+t.Draw(3); i < n && start+i < len(vals); i++ {
			ps = append(ps, "b="+vals[start+i])
		}
		sc.URI = "/p?" + strings.Join(ps, "&")
	}
	sc.Headers = []Header{{"Host", "h"}}
	for i, n := 0, t.Draw(3); i < n; i++ {
		sc.Headers = append(sc.Headers, Header{pick(t, []string{"X-A", "x-a", "X-B"}), pick(t, vals)})
	}
	if t.Draw(3) == 0 {
		sc.Headers = append(sc.Headers, Header{"Cookie", strings.ReplaceAll(q(), "&", "; ")})
	}
	if sc.Phase == 2 {
		sc.Body = q()
	}
	return sc
}

// variant: 0 = as generated, 1 = without transformations, 2 = identity-prefixed
func (sc *c12Scenario) text(variant int) string {
	var sb strings.Builder
	sb.WriteString("SecRuleEngine On\nSecRequestBodyAccess On\n")
	ident := 0
	var render func(r *c12Rule, child bool)
	render = func(r *c12Rule, child bool) {
		var acts []string
		if !child {
			ph := sc.Phase
			if r.Phase != 0 {
				ph = r.Phase
			}
			acts = append(acts, fmt.Sprintf("id:%d", r.ID), fmt.Sprintf("phase:%d", ph), "pass", "nolog")
		}
		if r.Multi {
			acts = append(acts, "multiMatch")
		}
		switch variant {
		case 0:
			for _, t := range r.Trans {
				acts = append(acts, "t:"+t)
			}
		case 2:
			acts = append(acts, fmt.Sprintf("t:vident%d", ident%c12IdentN))
			ident++
			for _, t := range r.Trans {
				acts = append(acts, "t:"+t)
			}
		}
		if r.Chain != nil {
			acts = append(acts, "chain")
		}
		ind := ""
		if child {
			ind = "  "
		}
		if len(acts) == 0 {
			acts = append(acts, "t:none")
		}
		fmt.Fprintf(&sb, "%sSecRule %s \"@unconditionalMatch\" \"%s\"\n", ind, r.Targets, strings.Join(acts, ","))
		if r.Chain != nil {
			render(r.Chain, true)
		}
	}
	for i := range sc.Rules {
		render(&sc.Rules[i], false)
	}
	return sb.String()
}

func (sc *c12Scenario) script() *TxScript {
	s := &TxScript{ID: "c12", Method: "GET", URI: sc.URI, Headers: sc.Headers, RespStatus: 200, StopAfter: -1}
	if sc.Phase == 2 {
		s.Method = "POST"
		s.BodyKind = "urlencoded"
		s.Body = []byte(sc.Body)
		s.ContentType = "application/x-www-form-urlencoded"
	}
	return s
}

func applyTrans(names []string, v string) string {
	for _, n := range names {
		if strings.EqualFold(n, "none") {
			continue
		}
		f, err := transformations.GetTransformation(n)
		if err != nil {
			panic(err)
		}
		if nv, _, err := f(v); err == nil {
			v = nv
		}
	}
	return v
}

// c12Observe returns, per rule id, the list of (variable:key, chain level, value)
func c12Observe(mrs []types.MatchedRule) map[int][][3]string {
	out := map[int][][3]string{}
	for _, mr := range mrs {
		id := mr.Rule().ID()
		for _, md := range mr.MatchedDatas() {
			out[id] = append(out[id], [3]string{md.Variable().Name() + ":" + md.Key(), fmt.Sprint(md.ChainLevel()), md.Value()})
		}
	}
	return out
}

func c12RunVariant(sc *c12Scenario, variant int, res *RunResult) (map[int][][3]string, bool) {
	h, err := buildWAF(sc.text(variant))
	if err != nil {
		if strings.HasPrefix(err.Error(), "PANIC") {
			res.fail("C12", "build-panic", "newwaf", "%v\n%s", err, sc.text(variant))
		}
		return nil, false
	}
	defer h.Close()
	var obs map[int][][3]string
	s := sc.script()
	var pan string
	tx := h.WAF.NewTransactionWithID("c12")
	pan = safely(func() {
		tx.ProcessURI(s.URI, s.Method, "HTTP/1.1")
		for _, hd := range s.Headers {
			tx.AddRequestHeader(hd.K, hd.V)
		}
		if s.ContentType != "" {
			tx.AddRequestHeader("Content-Type", s.ContentType)
		}
		tx.ProcessRequestHeaders()
		if s.BodyKind != "" {
			tx.WriteRequestBody(s.Body)
		}
		tx.ProcessRequestBody()
		obs = c12Observe(tx.MatchedRules())
		tx.ProcessLogging()
		tx.Close()
	})
	if pan != "" {
		res.fail("C12", "panic", panicSite(pan), "variant %d panicked: %s", variant, pan)
		return nil, false
	}
	return obs, true
}

func sortTriples(x [][3]string) [][3]string {
	y := append([][3]string(nil), x...)
	sort.Slice(y, func(i, j int) bool {
		for k := 0; k < 3; k++ {
			if y[i][k] != y[j][k] {
				return y[i][k] < y[j][k]
			}
		}
		return false
	})
	return y
}

func c12Run(w *verifrt.World, tier Tier) *RunResult {
	res := &RunResult{}
	sc := c12Gen(w.Work)
	res.Sample = map[string]any{"scenario": sc, "config": sc.text(0)}
	res.Hash = hash64(sc.text(0) + sc.URI + sc.Body + fmt.Sprint(sc.Headers))
	w.MapPolicy = verifrt.MapCanonical
	a, ok := c12RunVariant(sc, 0, res)
	if !ok {
		res.count("config_rejected", 1)
		return res
	}
	shared := false
	seenPrefix := map[string]bool{}
	for _, r := range sc.Rules {
		for _, rr := range []*c12Rule{&r, r.Chain} {
			if rr == nil {
				continue
			}
			for i := 1; i <= len(rr.Trans); i++ {
				k := strings.Join(rr.Trans[:i], "+")
				if seenPrefix[k] {
					shared = true
				}
			}
			for i := 1; i <= len(rr.Trans); i++ {
				seenPrefix[strings.Join(rr.Trans[:i], "+")] = true
			}
		}
	}
	res.Nontrivial = shared && len(a) >= 2
	if shared {
		res.count("shared_prefix_scenarios", 1)
	}
	byID := map[int]*c12Rule{}
	for i := range sc.Rules {
		byID[sc.Rules[i].ID] = &sc.Rules[i]
	}
	feature := func(id int) string {
		r := byID[id]
		if r == nil {
			return "?"
		}
		f := "static"
		if r.Dynamic {
			f = "dynamic"
		}
		return f
	}

	// (1) reference transformation model (static targets only)
	if !sc.Dynamic {
		b, ok := c12RunVariant(sc, 1, res)
		if ok {
			res.count("model_checked", 1)
			var bIDs []int
			for id := range b {
				bIDs = append(bIDs, id)
			}
			sort.Ints(bIDs) // fixed order: the first differing rule names the fingerprint
			for _, id := range bIDs {
				sel := b[id]
				r := byID[id]
				var want [][3]string
				for _, tr := range sel {
					names := r.Trans
					if tr[1] != "0" && r.Chain != nil {
						names = r.Chain.Trans
					}
					want = append(want, [3]string{tr[0], tr[1], applyTrans(names, tr[2])})
				}
				if !reflect.DeepEqual(sortTriples(want), sortTriples(a[id])) {
					res.fail("C12", "wrong-value-vs-model", feature(id), "rule %d (%s, t=%v) was evaluated against %q, but applying its own transformation list to the values it selects gives %q\nconfiguration:\n%s\nrequest: %s body=%q headers=%v",
						id, r.Targets, r.Trans, sortTriples(a[id]), sortTriples(want), sc.text(0), sc.URI, sc.Body, sc.Headers)
					break
				}
			}
			if len(b) != len(a) {
				res.fail("C12", "fired-set-vs-model", "static", "rules fired with transformations: %d, without: %d\n%s", len(a), len(b), sc.text(0))
			}
		}
	} else {
		res.count("dynamic_scenarios", 1)
	}
	// (2) identity-prefixed differential
	c, ok := c12RunVariant(sc, 2, res)
	if ok {
		ids := map[int]bool{}
		for id := range a {
			ids[id] = true
		}
		for id := range c {
			ids[id] = true
		}
		var sorted []int
		for id := range ids {
			sorted = append(sorted, id)
		}
		sort.Ints(sorted)
		for _, id := range sorted {
			if !reflect.DeepEqual(sortTriples(a[id]), sortTriples(c[id])) {
				r := byID[id]
				res.fail("C12", "wrong-value-vs-unshared", feature(id), "rule %d (%s, t=%v) saw %q; with cache sharing between rules made impossible (distinct identity transformation prefixed to every rule) it sees %q\nconfiguration:\n%s\nrequest: %s body=%q headers=%v",
					id, r.Targets, r.Trans, sortTriples(a[id]), sortTriples(c[id]), sc.text(0), sc.URI, sc.Body, sc.Headers)
				break
			}
		}
	}
	// (3) the same under permuted map orders
	if len(res.Viol) == 0 {
		n := 2
		if tier == Thorough {
			n = 6
		}
		for i := 0; i < n; i++ {
			w.MapPolicy = verifrt.MapRotate + i%2
			p, ok := c12RunVariant(sc, 0, res)
			if !ok {
				break
			}
			bad := false
			var aIDs []int
			for id := range a {
				aIDs = append(aIDs, id)
			}
			sort.Ints(aIDs)
			for _, id := range aIDs {
				if !reflect.DeepEqual(sortTriples(a[id]), sortTriples(p[id])) {
					res.fail("C12", "order-dependent-value", feature(id), "rule %d saw %q under canonical map order and %q under a permuted order\n%s\nrequest: %s", id, sortTriples(a[id]), sortTriples(p[id]), sc.text(0), sc.URI)
					bad = true
					break
				}
			}
			if bad {
				break
			}
		}
		w.MapPolicy = verifrt.MapCanonical
	}
	res.count("map_orders_permuted", int64(w.MapOrders))

	// (4) two transactions of one WAF, interleaved by the seeded scheduler (a
	// sixth of the runs): whatever transformations share beyond one transaction
	// (memo tables, pooled buffers) must not hand one transaction a value
	// computed for the other - each sees exactly what it sees alone
	if len(res.Viol) == 0 && w.Work.Draw(6) == 0 {
		g := c12Gen(w.Work)
		sc2 := *sc
		sc2.URI, sc2.Headers, sc2.Body = g.URI, g.Headers, g.Body
		if sc2.Phase == 2 && sc2.Body == "" {
			sc2.Body = "a=Ab&b=%41b"
		}
		a2, ok := c12RunVariant(&sc2, 0, res)
		if ok {
			if h, err := buildWAF(sc.text(0)); err == nil {
				h.Concurrent = true
				scs := []*c12Scenario{sc, &sc2}
				obs := make([]map[int][][3]string, 2)
				pans := make([]string, 2)
				var fns []func()
				for i := range scs {
					i := i
					fns = append(fns, func() { obs[i], pans[i] = c12Tx(h, scs[i], fmt.Sprintf("c12-t%d", i)) })
				}
				sch := verifrt.NewSched(w.Sch, []int{verifrt.PolicyRandom, verifrt.PolicyRandom, verifrt.PolicyPCT}[w.Sch.Draw(3)])
				sch.RunLen = []int{1, 1, 2, 4, 8}[w.Sch.Draw(5)]
				tasks := sch.Run(fns)
				res.Interleave = sch.TraceHash
				res.count("interleaved_pairs", 1)
				res.count("context_switches", int64(sch.Switches))
				if sch.Deadlock || sch.Overrun {
					res.Tainted = true
					res.fail("C12", "deadlock", "interleaved", "two interleaved transactions did not finish (deadlock=%v, step budget exceeded=%v)", sch.Deadlock, sch.Overrun)
				}
				for _, tk := range tasks {
					if tk.Panic != nil {
						res.Tainted = true
						res.fail("C12", "panic", "interleaved/"+panicSite(tk.Stack), "task %d panicked: %v\n%s", tk.ID, tk.Panic, clip(tk.Stack, 1500))
					}
				}
				if len(res.Viol) == 0 {
					for i, want := range []map[int][][3]string{a, a2} {
						if pans[i] != "" {
							res.fail("C12", "panic", "interleaved/"+panicSite(pans[i]), "interleaved transaction %d panicked: %s", i, pans[i])
							break
						}
						ids := map[int]bool{}
						for id := range want {
							ids[id] = true
						}
						for id := range obs[i] {
							ids[id] = true
						}
						var sorted []int
						for id := range ids {
							sorted = append(sorted, id)
						}
						sort.Ints(sorted)
						bad := false
						for _, id := range sorted {
							if !reflect.DeepEqual(sortTriples(want[id]), sortTriples(obs[i][id])) {
								res.fail("C12", "wrong-value-interleaved", feature(id), "rule %d saw %q in a transaction interleaved with another one on the same WAF, and %q when the transaction runs alone\nconfiguration:\n%s\nrequest: %s body=%q\nother request: %s body=%q",
									id, sortTriples(obs[i][id]), sortTriples(want[id]), sc.text(0), scs[i].URI, scs[i].Body, scs[1-i].URI, scs[1-i].Body)
								bad = true
								break
							}
						}
						if bad {
							break
						}
					}
				}
				if !res.Tainted {
					h.Close()
				}
			}
		}
	}
	return res
}

// c12Tx runs one transaction of the scenario on h and returns what its rules saw.
func c12Tx(h *wafHandle, sc *c12Scenario, id string) (obs map[int][][3]string, pan string) {
	s := sc.script()
	pan = safely(func() {
		tx := h.WAF.NewTransactionWithID(id)
		tx.ProcessURI(s.URI, s.Method, "HTTP/1.1")
		for _, hd := range s.Headers {
			tx.AddRequestHeader(hd.K, hd.V)
		}
		if s.ContentType != "" {
			tx.AddRequestHeader("Content-Type", s.ContentType)
		}
		tx.ProcessRequestHeaders()
		if s.BodyKind != "" {
			tx.WriteRequestBody(s.Body)
		}
		tx.ProcessRequestBody()
		obs = c12Observe(tx.MatchedRules())
		tx.ProcessLogging()
		tx.Close()
	})
	return obs, pan
}

func init() {
	register(&Check{
		ID: "C12", Level: "exploration", Run: c12Run, AgedWorker: true,
		Runs:       [2]int{30000, 1200000},
		MaxSeconds: [2]int{90, 1500},
		Rule: "one run = 2-6 @unconditionalMatch rules (plus chains) in one phase whose transformation lists are prefixes of a drawn family plus optional tails, over static targets with selectors / exclusions / regex keys that shift positions between rules and (1/3 of runs) targets whose content changes inside the phase (MATCHED_VAR*, RULE, counts, TX), on a request with repeated names and values. " +
			"Oracle 1 (static targets): values selected = matched data of the same rules without transformations; expected = registered transformation functions applied directly. Oracle 2: same rules with a distinct identity transformation prefixed per rule (no cross-rule cache entry possible). Oracle 3: same result under permuted map orders. " +
			"non-trivial = at least two rules share a transformation prefix and at least two rules fired; distinct = scenario hash",
		Assumptions: []string{"transformation functions are pure (C14, not claimed) and are used as the trusted reference", "multiMatch rules bypass the cache and are not generated"},
		Real:        []string{"rule engine, transformation cache, collections, seclang parser, transformations"},
		Stub:        []string{"map iteration order", "clock", "random source", "file system"},
		Unchecked:   []string{"order of values inside one rule"},
		MustHit:     []string{"shared_prefix_scenarios", "model_checked", "dynamic_scenarios", "interleaved_pairs"},
	})
}
