package main

import (
	"bytes"
	"fmt"
	"mime/multipart"
	"net/textproto"
	"strings"

	"github.com/corazawaf/coraza/v3/verifrt"
)

// ---------------------------------------------------------------- configuration model

type TargetSpec struct {
	Var   string `json:"var"`
	Key   string `json:"key,omitempty"`
	Regex bool   `json:"regex,omitempty"`
	Count bool   `json:"count,omitempty"`
	Neg   bool   `json:"neg,omitempty"`
}

func (t TargetSpec) String() string {
	s := ""
	if t.Neg {
		s = "!"
	}
	if t.Count {
		s += "&"
	}
	s += t.Var
	if t.Key != "" {
		if t.Regex {
			s += ":/" + t.Key + "/"
		} else {
			s += ":" + t.Key
		}
	}
	return s
}

type RuleSpec struct {
	ID      int          `json:"id"`
	Phase   int          `json:"phase"`
	Targets []TargetSpec `json:"targets,omitempty"`
	Op      string       `json:"op,omitempty"` // "@rx x", "!@streq y" ...
	Trans   []string     `json:"t,omitempty"`
	Disrupt string       `json:"disruptive,omitempty"` // pass deny drop redirect:URL allow allow:phase allow:request block
	Status  int          `json:"status,omitempty"`
	Log     string       `json:"log,omitempty"`
	Extra   []string     `json:"extra,omitempty"`
	Chain   *RuleSpec    `json:"chain,omitempty"`
	Marker  string       `json:"marker,omitempty"`
}

func (r *RuleSpec) render(sb *strings.Builder, child bool) {
	if r.Marker != "" {
		fmt.Fprintf(sb, "SecMarker %s\n", r.Marker)
		return
	}
	var acts []string
	if !child {
		acts = append(acts, fmt.Sprintf("id:%d", r.ID), fmt.Sprintf("phase:%d", r.Phase))
		if r.Disrupt != "" {
			acts = append(acts, r.Disrupt)
		} else {
			acts = append(acts, "pass")
		}
		if r.Status != 0 {
			acts = append(acts, fmt.Sprintf("status:%d", r.Status))
		}
	}
	if r.Log != "" {
		acts = append(acts, r.Log)
	}
	for _, t := range r.Trans {
		acts = append(acts, "t:"+t)
	}
	acts = append(acts, r.Extra...)
	if r.Chain != nil {
		acts = append(acts, "chain")
	}
	if len(r.Targets) == 0 {
		if child {
			// chain members need an operator; use an always-true rule
			fmt.Fprintf(sb, "  SecRule REQUEST_METHOD \"@unconditionalMatch\" \"%s\"\n", strings.Join(acts, ","))
		} else {
			fmt.Fprintf(sb, "SecAction \"%s\"\n", strings.Join(acts, ","))
		}
	} else {
		var ts []string
		for _, t := range r.Targets {
			ts = append(ts, t.String())
		}
		ind := ""
		if child {
			ind = "  "
		}
		fmt.Fprintf(sb, "%sSecRule %s \"%s\" \"%s\"\n", ind, strings.Join(ts, "|"), r.Op, strings.Join(acts, ","))
	}
	if r.Chain != nil {
		r.Chain.render(sb, true)
	}
}

type Config struct {
	Engine      string     `json:"engine"`
	ReqAccess   bool       `json:"req_access"`
	RespAccess  bool       `json:"resp_access"`
	ReqLimit    int        `json:"req_limit,omitempty"`
	ReqMem      int        `json:"req_mem,omitempty"`
	ReqReject   bool       `json:"req_reject,omitempty"`
	RespLimit   int        `json:"resp_limit,omitempty"`
	RespReject  bool       `json:"resp_reject,omitempty"`
	ArgLimit    int        `json:"arg_limit,omitempty"`
	Lines       []string   `json:"lines,omitempty"` // extra directives placed before the rules
	Rules       []RuleSpec `json:"rules"`
	DumpTX      bool       `json:"dump_tx"`
	DefaultAct  string     `json:"default_action,omitempty"`
	UploadDir   string     `json:"upload_dir,omitempty"`
	KeepFiles   string     `json:"keep_files,omitempty"`
	ForceReqVar bool       `json:"force_req_var,omitempty"`
	// BodyProcessors adds the two rules that select the JSON / XML body processors by content type
	BodyProcessors bool `json:"body_processors,omitempty"`
}

const dumpRuleID = 9990

func (c *Config) Text() string {
	var sb strings.Builder
	fmt.Fprintf(&sb, "SecRuleEngine %s\n", c.Engine)
	onoff := func(b bool) string {
		if b {
			return "On"
		}
		return "Off"
	}
	act := func(b bool) string {
		if b {
			return "Reject"
		}
		return "ProcessPartial"
	}
	fmt.Fprintf(&sb, "SecRequestBodyAccess %s\nSecResponseBodyAccess %s\nSecResponseBodyMimeType text/plain text/html\n", onoff(c.ReqAccess), onoff(c.RespAccess))
	if c.ReqLimit > 0 {
		fmt.Fprintf(&sb, "SecRequestBodyLimit %d\nSecRequestBodyLimitAction %s\n", c.ReqLimit, act(c.ReqReject))
	}
	if c.ReqMem > 0 {
		fmt.Fprintf(&sb, "SecRequestBodyInMemoryLimit %d\n", c.ReqMem)
	}
	if c.RespLimit > 0 {
		fmt.Fprintf(&sb, "SecResponseBodyLimit %d\nSecResponseBodyLimitAction %s\n", c.RespLimit, act(c.RespReject))
	}
	if c.ArgLimit > 0 {
		fmt.Fprintf(&sb, "SecArgumentsLimit %d\n", c.ArgLimit)
	}
	if c.UploadDir != "" {
		fmt.Fprintf(&sb, "SecUploadDir %s\n", c.UploadDir)
	}
	if c.KeepFiles != "" {
		fmt.Fprintf(&sb, "SecUploadKeepFiles %s\n", c.KeepFiles)
	}
	if c.DefaultAct != "" {
		fmt.Fprintf(&sb, "SecDefaultAction \"%s\"\n", c.DefaultAct)
	}
	for _, l := range c.Lines {
		sb.WriteString(l)
		sb.WriteByte('\n')
	}
	if c.ForceReqVar {
		sb.WriteString("SecAction \"id:9980,phase:1,pass,nolog,ctl:forceRequestBodyVariable=On\"\n")
	}
	if c.BodyProcessors {
		// JSON and XML bodies are only parsed when a rule selects the processor
		sb.WriteString("SecRule REQUEST_HEADERS:Content-Type \"@contains json\" \"id:9981,phase:1,pass,nolog,ctl:requestBodyProcessor=JSON\"\n")
		sb.WriteString("SecRule REQUEST_HEADERS:Content-Type \"@contains xml\" \"id:9982,phase:1,pass,nolog,ctl:requestBodyProcessor=XML\"\n")
	}
	for i := range c.Rules {
		c.Rules[i].render(&sb, false)
	}
	if c.DumpTX {
		fmt.Fprintf(&sb, "SecRule TX \"@unconditionalMatch\" \"id:%d,phase:5,pass,nolog\"\n", dumpRuleID)
	}
	return sb.String()
}

// ---------------------------------------------------------------- request model

type Header struct {
	K string `json:"k"`
	V string `json:"v"`
}

type FilePart struct {
	Field    string `json:"field"`
	Filename string `json:"filename,omitempty"` // "" = plain field
	Content  string `json:"content"`
}

type TxScript struct {
	ID          string     `json:"id"`
	Method      string     `json:"method"`
	URI         string     `json:"uri"`
	Headers     []Header   `json:"headers,omitempty"`
	BodyKind    string     `json:"body_kind,omitempty"` // "", urlencoded, multipart, json, raw
	Body        []byte     `json:"body,omitempty"`
	Parts       []FilePart `json:"parts,omitempty"`
	ContentType string     `json:"content_type,omitempty"`
	BodyChunks  []int      `json:"body_chunks,omitempty"`
	BodyReader  int        `json:"body_reader,omitempty"` // 0 slice writes, 1 reader with Len, 2 reader without Len
	RespStatus  int        `json:"resp_status"`
	RespHeaders []Header   `json:"resp_headers,omitempty"`
	RespBody    []byte     `json:"resp_body,omitempty"`
	StopAfter   int        `json:"stop_after"`             // number of API calls to perform before abandoning (-1 = all)
	NoLogging   bool       `json:"no_logging,omitempty"`   // omit ProcessLogging
	NoClose     bool       `json:"no_close,omitempty"`     // caller forgets Close
	DoubleClose bool       `json:"double_close,omitempty"` // Close twice
	HoldReader  bool       `json:"hold_reader,omitempty"`  // keep a body reader across Close
	stampOut    *int64     // receives the transaction's timestamp (C19)
	beforeClose func()     // harness hook: runs after the last API call, before Close (C05)
}

// ---------------------------------------------------------------- generators

var (
	argNames  = []string{"a", "b", "A", "c", "id", "x1", "a"}
	argValues = []string{"1", "2", "foo", "Bar", "EVIL", "evil", "a+b", "%41bc", "x y", "", "tok1", "tok2", "<ScRipt>",
		// long values (anything that treats long inputs differently: verdict caches, chunked copies)
		"evil" + strings.Repeat("x", 120), strings.Repeat("a", 60) + "+" + strings.Repeat("b", 60)}
	hdrNames   = []string{"X-A", "x-a", "X-B", "User-Agent", "X-Tok"}
	transPool  = []string{"lowercase", "uppercase", "urlDecode", "trim", "removeWhitespace", "length", "hexEncode", "base64Encode", "compressWhitespace", "none", "sha1", "removeNulls"}
	reqVars    = []string{"ARGS", "ARGS_GET", "ARGS_POST", "ARGS_NAMES", "ARGS_GET_NAMES", "ARGS_POST_NAMES", "REQUEST_HEADERS", "REQUEST_HEADERS_NAMES", "REQUEST_COOKIES", "REQUEST_COOKIES_NAMES", "REQUEST_URI", "QUERY_STRING", "REQUEST_METHOD"}
	bodyVars   = []string{"ARGS_POST", "ARGS", "REQUEST_BODY", "FILES", "FILES_NAMES", "FILES_SIZES", "MULTIPART_PART_HEADERS", "ARGS_NAMES", "FILES_COMBINED_SIZE", "XML:/*", "REQBODY_ERROR", "REQBODY_PROCESSOR"}
	respVars   = []string{"RESPONSE_HEADERS", "RESPONSE_STATUS", "RESPONSE_HEADERS_NAMES", "RESPONSE_CONTENT_TYPE"}
	dynVars    = []string{"MATCHED_VAR", "MATCHED_VARS", "MATCHED_VAR_NAME", "MATCHED_VARS_NAMES", "TX", "RULE"}
	keyedVars  = map[string]bool{"ARGS": true, "ARGS_GET": true, "ARGS_POST": true, "REQUEST_HEADERS": true, "REQUEST_COOKIES": true, "RESPONSE_HEADERS": true, "TX": true, "ARGS_NAMES": true, "ARGS_GET_NAMES": true, "ARGS_POST_NAMES": true, "MATCHED_VARS": true, "FILES_SIZES": true, "MULTIPART_PART_HEADERS": true}
	opsMatchy  = []string{"@unconditionalMatch", "@rx .", "@rx ^[a-z0-9]+$", "@contains o", "@streq 1", "@pm evil foo tok1", "@rx (?i)evil", "@rx ^(\\w)(\\w*)$", "!@streq 2", "@contains tok", "@beginsWith a", "@rx [A-Z]"}
	opsNumeric = []string{"@eq 0", "@eq 1", "@gt 1", "@ge 2", "@lt 3"}
)

func pick(t *verifrt.Tape, xs []string) string { return xs[t.Draw(len(xs))] }

type genOpts struct {
	MaxRules    int
	Phases      []int // phases rules may be placed in
	Disruptive  int   // 1/N chance of a disruptive action per rule (0 = never)
	Flow        bool  // skip / skipAfter / allow
	Ctl         bool
	Dyn         bool // MATCHED_VAR*, TX, RULE targets
	Chains      bool
	Response    bool
	Capture     bool
	MultiMatch  bool
	LogFlags    bool
	Exclusions  bool
	RegexKeys   bool
	Counts      bool
	EngineModes []string
}

func genTarget(t *verifrt.Tape, o *genOpts, phase int) TargetSpec {
	pool := reqVars
	if phase >= 2 && t.Draw(2) == 0 {
		pool = bodyVars
	}
	if o.Response && phase >= 3 && t.Draw(2) == 0 {
		pool = respVars
	}
	if o.Dyn && t.Draw(5) == 0 {
		pool = dynVars
	}
	ts := TargetSpec{Var: pick(t, pool)}
	if keyedVars[ts.Var] {
		switch t.Draw(5) {
		case 0:
			ts.Key = pick(t, argNames)
			if strings.HasPrefix(ts.Var, "REQUEST_HEADERS") || strings.HasPrefix(ts.Var, "RESPONSE_HEADERS") {
				ts.Key = pick(t, hdrNames)
			}
			if ts.Var == "TX" {
				ts.Key = pick(t, []string{"cnt", "score", "0", "1", "last"})
			}
		case 1:
			if o.RegexKeys {
				ts.Key = pick(t, []string{"^a", "^[ab]$", ".", "(?i)^a$", "x", "^A", "^X-", "[A-Z]"})
				ts.Regex = true
			}
		}
	}
	if o.Counts && t.Draw(8) == 0 {
		ts.Count = true
	}
	return ts
}

func genRule(t *verifrt.Tape, o *genOpts, id int, depth int) RuleSpec {
	r := RuleSpec{ID: id, Phase: o.Phases[t.Draw(len(o.Phases))]}
	nt := 1 + t.Draw(3)/2
	for i := 0; i < nt; i++ {
		r.Targets = append(r.Targets, genTarget(t, o, r.Phase))
	}
	if o.Exclusions && t.Draw(4) == 0 {
		base := r.Targets[0]
		if keyedVars[base.Var] && base.Key == "" && !base.Count {
			r.Targets = append(r.Targets, TargetSpec{Var: base.Var, Key: pick(t, argNames), Neg: true})
		}
	}
	if r.Targets[0].Count {
		r.Op = pick(t, opsNumeric)
	} else {
		r.Op = pick(t, opsMatchy)
	}
	ntr := t.Draw(4)
	for i := 0; i < ntr; i++ {
		r.Trans = append(r.Trans, pick(t, transPool))
	}
	if depth == 0 {
		if o.Disruptive > 0 && t.Draw(o.Disruptive) == 0 {
			switch t.Draw(6) {
			case 0, 1, 2:
				r.Disrupt = "deny"
			case 3:
				r.Disrupt = "drop"
			case 4:
				r.Disrupt = "redirect:http://example.com/r"
			case 5:
				r.Disrupt = "block"
			}
			if t.Draw(3) == 0 {
				r.Status = []int{403, 401, 500, 302}[t.Draw(4)]
			}
		} else if o.Flow && t.Draw(6) == 0 {
			switch t.Draw(5) {
			case 0:
				r.Disrupt = "allow"
			case 1:
				r.Disrupt = "allow:phase"
			case 2:
				r.Disrupt = "allow:request"
			case 3:
				r.Extra = append(r.Extra, fmt.Sprintf("skip:%d", 1+t.Draw(2)))
			case 4:
				r.Extra = append(r.Extra, "skipAfter:"+pick(t, []string{"M1", "M2", "NOWHERE"}))
			}
		}
	}
	if o.LogFlags {
		r.Log = pick(t, []string{"", "log", "nolog", "nolog,auditlog", "log,noauditlog", "auditlog"})
	}
	switch t.Draw(6) {
	case 0:
		r.Extra = append(r.Extra, "setvar:tx.cnt=+1")
	case 1:
		r.Extra = append(r.Extra, fmt.Sprintf("setvar:tx.score=+%d", 1+t.Draw(5)))
	case 2:
		if o.Dyn {
			r.Extra = append(r.Extra, "setvar:tx.last=%{MATCHED_VAR}")
		}
	case 3:
		r.Extra = append(r.Extra, fmt.Sprintf("msg:'m%d %%{MATCHED_VAR_NAME}'", id))
	case 4:
		if o.Dyn && t.Draw(3) == 0 {
			r.Extra = append(r.Extra, "setvar:!tx."+pick(t, []string{"cnt", "last", "score"}))
		}
	}
	if o.Capture && t.Draw(6) == 0 {
		r.Extra = append(r.Extra, "capture")
	}
	if o.MultiMatch && t.Draw(10) == 0 {
		r.Extra = append(r.Extra, "multiMatch")
	}
	if o.Ctl && depth == 0 && t.Draw(8) == 0 {
		r.Extra = append(r.Extra, pick(t, []string{
			"ctl:ruleRemoveById=103", "ctl:ruleRemoveTargetById=104;ARGS:a", "ctl:ruleRemoveTargetById=102;ARGS_GET",
			"ctl:ruleEngine=DetectionOnly", "ctl:ruleEngine=Off", "ctl:auditEngine=Off", "ctl:auditEngine=On", "ctl:auditLogParts=+E", "ctl:auditLogParts=-H",
			"ctl:requestBodyAccess=Off", "ctl:forceRequestBodyVariable=On", "ctl:requestBodyLimit=5", "ctl:responseBodyAccess=Off", "ctl:ruleRemoveById=101-103",
			"ctl:ruleRemoveByTag=t1", "ctl:requestBodyProcessor=JSON", "ctl:ruleRemoveTargetByTag=t1;ARGS:b",
			"ctl:responseBodyLimit=7", "ctl:forceResponseBodyVariable=On", "ctl:requestBodyProcessor=URLENCODED", "ctl:ruleRemoveById=102",
			"ctl:ruleRemoveTargetById=101;REQUEST_HEADERS:x-a", "ctl:ruleRemoveTargetById=103;ARGS:/^a/", "ctl:auditLogParts=-C", "ctl:ruleEngine=On",
		}))
	}
	if t.Draw(5) == 0 {
		r.Extra = append(r.Extra, "tag:'t1'")
	}
	if t.Draw(8) == 0 {
		r.Extra = append(r.Extra, fmt.Sprintf("severity:%d", t.Draw(6)))
	}
	if o.Chains && depth < 2 && t.Draw(5) == 0 {
		c := genRule(t, o, 0, depth+1)
		c.Phase = r.Phase
		if o.Dyn && t.Draw(2) == 0 {
			c.Targets = []TargetSpec{{Var: pick(t, []string{"MATCHED_VAR", "MATCHED_VARS", "MATCHED_VAR_NAME"})}}
			c.Op = pick(t, []string{"@streq 2", "@rx ^[a-z]", "@contains o", "@streq evil", "@rx ."})
		}
		c.Disrupt, c.Status = "", 0
		r.Chain = &c
	}
	return r
}

func genConfig(t *verifrt.Tape, o *genOpts) *Config {
	c := &Config{Engine: "On", DumpTX: true}
	if len(o.EngineModes) > 0 {
		c.Engine = o.EngineModes[t.Draw(len(o.EngineModes))]
	}
	c.ReqAccess = t.Draw(4) != 0
	c.RespAccess = o.Response && t.Draw(2) == 0
	c.ForceReqVar = t.Draw(3) == 0
	c.BodyProcessors = t.Draw(3) != 0
	n := 1 + t.Draw(o.MaxRules)
	for i := 0; i < n; i++ {
		c.Rules = append(c.Rules, genRule(t, o, 101+i, 0))
		if o.Flow && t.Draw(6) == 0 {
			c.Rules = append(c.Rules, RuleSpec{Marker: pick(t, []string{"M1", "M2"})})
		}
	}
	return c
}

func genQuery(t *verifrt.Tape, max int) string {
	n := t.Draw(max + 1)
	var parts []string
	for i := 0; i < n; i++ {
		parts = append(parts, pick(t, argNames)+"="+pick(t, argValues))
	}
	return strings.Join(parts, "&")
}

func buildMultipart(parts []FilePart) (body []byte, contentType string) {
	var buf bytes.Buffer
	mw := multipart.NewWriter(&buf)
	mw.SetBoundary("simboundary123")
	for _, p := range parts {
		if p.Filename == "" {
			w, _ := mw.CreateFormField(p.Field)
			w.Write([]byte(p.Content))
		} else {
			h := textproto.MIMEHeader{}
			h.Set("Content-Disposition", fmt.Sprintf(`form-data; name="%s"; filename="%s"`, p.Field, p.Filename))
			h.Set("Content-Type", "application/octet-stream")
			w, _ := mw.CreatePart(h)
			w.Write([]byte(p.Content))
		}
	}
	mw.Close()
	return buf.Bytes(), mw.FormDataContentType()
}

type reqOpts struct {
	Body     bool
	Response bool
	Uploads  bool
	JSON     bool
	MaxArgs  int
	Abandon  bool
}

func genScript(t *verifrt.Tape, o *reqOpts, id string) *TxScript {
	s := &TxScript{ID: id, Method: "GET", RespStatus: 200, StopAfter: -1}
	q := genQuery(t, o.MaxArgs)
	s.URI = pick(t, []string{"/", "/index.php", "/a/b", "/tok1"})
	if q != "" {
		s.URI += "?" + q
	}
	nh := t.Draw(4)
	s.Headers = append(s.Headers, Header{"Host", "example.com"})
	for i := 0; i < nh; i++ {
		s.Headers = append(s.Headers, Header{pick(t, hdrNames), pick(t, argValues)})
	}
	if t.Draw(3) == 0 {
		nc := 1 + t.Draw(3)
		var cs []string
		for i := 0; i < nc; i++ {
			cs = append(cs, pick(t, argNames)+"="+pick(t, argValues))
		}
		s.Headers = append(s.Headers, Header{"Cookie", strings.Join(cs, "; ")})
	}
	if o.Body && t.Draw(3) != 0 {
		s.Method = "POST"
		kinds := []string{"urlencoded", "urlencoded", "raw"}
		if o.Uploads {
			kinds = append(kinds, "multipart", "multipart")
		}
		if o.JSON {
			kinds = append(kinds, "json", "xml")
		}
		s.BodyKind = pick(t, kinds)
		switch s.BodyKind {
		case "urlencoded":
			s.Body = []byte(genQuery(t, o.MaxArgs))
			s.ContentType = "application/x-www-form-urlencoded"
		case "raw":
			s.Body = randBytes(t, t.Draw(40), "abc tok1=&\n")
			s.ContentType = "text/plain"
		case "json":
			s.Body = []byte(pick(t, []string{`{"a":1,"A":2}`, `{"a":{"b":[1,2,"x"]},"c":"tok1"}`, `[1,2,3]`, `{"a":"evil","b":"foo"}`, `{"bad":`}))
			s.ContentType = "application/json"
		case "xml":
			s.Body = []byte(pick(t, []string{`<a><b x="tok1">evil</b><c>1</c></a>`, `<?xml version="1.0"?><r><i>foo</i><i>Bar</i></r>`, `<a><b>unclosed`, `<a attr="1">` + strings.Repeat("x", 40) + `</a>`}))
			s.ContentType = "text/xml"
		case "multipart":
			np := 1 + t.Draw(4)
			for i := 0; i < np; i++ {
				p := FilePart{Field: pick(t, argNames), Content: string(randBytes(t, t.Draw(30), "abcdef \n"))}
				if t.Draw(2) == 0 {
					p.Filename = pick(t, []string{"f1.txt", "f2.bin", "evil.php"})
				}
				s.Parts = append(s.Parts, p)
			}
			s.Body, s.ContentType = buildMultipart(s.Parts)
			if t.Draw(8) == 0 && len(s.Body) > 10 {
				s.Body = s.Body[:len(s.Body)-t.Range(1, 10)] // truncated upload
			}
		}
		nc := t.Draw(4)
		for i := 0; i < nc; i++ {
			s.BodyChunks = append(s.BodyChunks, 1+t.Draw(20))
		}
		s.BodyReader = t.Draw(3)
	}
	if o.Response {
		s.RespStatus = []int{200, 200, 404, 500, 302, 403}[t.Draw(6)]
		s.RespHeaders = append(s.RespHeaders, Header{"Content-Type", pick(t, []string{"text/plain", "text/html; charset=utf-8", "application/octet-stream"})})
		if t.Draw(2) == 0 {
			s.RespHeaders = append(s.RespHeaders, Header{pick(t, hdrNames), pick(t, argValues)})
		}
		s.RespBody = randBytes(t, t.Draw(50), "abc tok1 evil<>\n")
	}
	if o.Abandon {
		switch t.Draw(6) {
		case 0:
			s.StopAfter = t.Draw(16)
		case 1:
			s.NoLogging = true
		case 2:
			s.DoubleClose = true
		case 3:
			s.HoldReader = true
		}
	}
	return s
}
