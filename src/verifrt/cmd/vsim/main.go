package main

import (
	"fmt"

	coraza "github.com/corazawaf/coraza/v3"
	"github.com/corazawaf/coraza/v3/verifrt"
	"github.com/corazawaf/coraza/v3/verifrt/simos"
	"github.com/corazawaf/coraza/v3/verifrt/sitetab"
)

func main() {
	verifrt.Install(verifrt.NewWorld(1))
	waf, err := coraza.NewWAF(coraza.NewWAFConfig().WithDirectives(`
SecRuleEngine On
SecRequestBodyAccess On
SecRequestBodyInMemoryLimit 4
SecRule ARGS_GET "@rx x" "id:1,phase:1,deny,t:lowercase"
`))
	if err != nil {
		panic(err)
	}
	tx := waf.NewTransaction()
	tx.ProcessURI("/?a=x&b=2", "GET", "HTTP/1.1")
	it := tx.ProcessRequestHeaders()
	tx.WriteRequestBody([]byte("hello world"))
	fmt.Println(it, tx.ID(), len(sitetab.Sites), simos.Disk().Files(), simos.Disk().Ops)
	tx.ProcessLogging()
	tx.Close()
	fmt.Println(simos.Disk().Files(), len(simos.Disk().Ops))
}
