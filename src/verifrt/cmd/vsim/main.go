// vsim is the simulation harness.  It is compiled inside the coraza module
// namespace (through the build overlay) so that it can reach internal packages.
package main

import (
	"encoding/json"
	"flag"
	"fmt"
	"io"
	"os"
	"runtime"
	"sort"
	"strconv"
	"time"

	"github.com/corazawaf/coraza/v3/verifrt"
	"github.com/corazawaf/coraza/v3/verifrt/sitetab"
)

// memoryWatchdog turns a runaway allocation (a harness bug, or code under test
// looping under an injected fault) into exit 2 instead of an OOM kill.
func memoryWatchdog() {
	var ms runtime.MemStats
	for {
		time.Sleep(500 * time.Millisecond)
		runtime.ReadMemStats(&ms)
		if ms.HeapAlloc > 6<<30 {
			fmt.Fprintf(os.Stderr, "INFRASTRUCTURE: heap grew to %d MiB; aborting (args %v)\n", ms.HeapAlloc>>20, os.Args)
			os.Exit(2)
		}
	}
}

func usage() {
	fmt.Fprintln(os.Stderr, "usage: vsim run <ID> <quick|thorough> [flags] | replay <file> | selftest | list")
	os.Exit(2)
}

func tierOf(s string) Tier {
	if s == "thorough" {
		return Thorough
	}
	return Quick
}

func main() {
	raceLogPath = os.Getenv("VSIM_RACELOG")
	go memoryWatchdog()
	if len(os.Args) < 2 {
		usage()
	}
	switch os.Args[1] {
	case "list":
		for id := range checks {
			fmt.Println(id)
		}
	case "run":
		if len(os.Args) < 4 {
			usage()
		}
		c := checks[os.Args[2]]
		if c == nil {
			fmt.Fprintln(os.Stderr, "unknown check", os.Args[2])
			os.Exit(2)
		}
		tier := tierOf(os.Args[3])
		fs := flag.NewFlagSet("run", flag.ExitOnError)
		seed := fs.Uint64("seed", 1, "")
		workers := fs.Int("workers", 16, "")
		ev := fs.String("evidence", "/verif/evidence/"+c.ID+".json", "")
		rp := fs.String("replays", "/verif/replays", "")
		kn := fs.String("known", "/verif/known_findings.json", "")
		sc := fs.String("scratch", os.TempDir(), "")
		fs.Parse(os.Args[4:])
		os.Exit(parentMain(c, tier, *seed, *workers, *ev, *rp, *kn, *sc))
	case "worker":
		a := os.Args[2:]
		c := checks[a[0]]
		seed, _ := strconv.ParseUint(a[2], 10, 64)
		idx, _ := strconv.Atoi(a[3])
		n, _ := strconv.Atoi(a[4])
		runs, _ := strconv.Atoi(a[5])
		maxSec, _ := strconv.Atoi(a[6])
		workerMain(c, tierOf(a[1]), seed, idx, n, runs, maxSec, a[7])
	case "replayjson":
		c := checks[os.Args[2]]
		var in struct {
			Seed  uint64              `json:"seed"`
			Tapes map[string][]uint32 `json:"tapes"`
			Prel  []uint64            `json:"prelude"`
			NoRst bool                `json:"noreset"`
		}
		b, _ := io.ReadAll(os.Stdin)
		if err := json.Unmarshal(b, &in); err != nil {
			fmt.Fprintln(os.Stderr, err)
			os.Exit(2)
		}
		noReset = in.NoRst
		ro := replayOnce(c, tierOf(os.Args[3]), in.Seed, in.Tapes, in.Prel...)
		out, _ := json.Marshal(ro)
		os.Stdout.Write(out)
	case "replay":
		b, err := os.ReadFile(os.Args[2])
		if err != nil {
			fmt.Fprintln(os.Stderr, err)
			os.Exit(2)
		}
		var rf ReplayFile
		if err := json.Unmarshal(b, &rf); err != nil {
			fmt.Fprintln(os.Stderr, err)
			os.Exit(2)
		}
		c := checks[rf.Property]
		if c == nil {
			fmt.Fprintln(os.Stderr, "unknown property", rf.Property)
			os.Exit(2)
		}
		noReset = rf.NoReset
		ro := replayOnce(c, tierOf(rf.Tier), rf.Seed, rf.Tapes, rf.Prelude...)
		sc, _ := json.MarshalIndent(ro.Scenario, "", " ")
		fmt.Printf("scenario: %s\n", sc)
		if v := hasFP(ro.Viol, rf.Fingerprint); v != nil {
			fmt.Printf("REPRODUCED %s\n%s\n", v.Fingerprint, v.Detail)
			fmt.Printf("VIOLATION property=%s replay=%s\n", rf.Property, os.Args[2])
			os.Exit(1)
		}
		for _, v := range ro.Viol {
			fmt.Printf("other violation: %s\n", v.Fingerprint)
		}
		fmt.Println("not reproduced")
	case "dettest":
		// determinism self-test: every seed is executed in several fresh
		// processes (different GOMAXPROCS); recorded tapes and violations must
		// be identical
		c := checks[os.Args[2]]
		n, _ := strconv.Atoi(os.Args[4])
		os.Exit(detTest(c, tierOf(os.Args[3]), n, os.Args[5]))
	case "seq":
		// debugging aid: run the given seeds one after the other in this process
		c := checks[os.Args[2]]
		for _, a := range os.Args[3:] {
			seed, _ := strconv.ParseUint(a, 10, 64)
			var tr []uint32
			verifrt.TraceSites = &tr
			ro := replayOnce(c, Quick, seed, nil)
			verifrt.TraceSites = nil
			cnt := map[uint32]int{}
			for _, s := range tr {
				cnt[s]++
			}
			fmt.Printf("seed %d: sched=%d work=%d viol=%d yields=%d\n", seed, len(ro.Tapes["sched"]), len(ro.Tapes["work"]), len(ro.Viol), len(tr))
			if os.Getenv("VSIM_TRACE") != "" {
				var keys []int
				for k := range cnt {
					keys = append(keys, int(k))
				}
				sort.Ints(keys)
				for _, k := range keys {
					fmt.Printf("  site %d %s x%d\n", k, sitetab.Sites[uint32(k)], cnt[uint32(k)])
				}
			}
		}
	case "golden":
		c13GoldenMain()
	case "selftest":
		os.Exit(selftest(os.Args[2:]))
	default:
		usage()
	}
}
