package main

import (
	"fmt"
	"strings"

	"github.com/corazawaf/coraza/v3/verifrt"
	"github.com/corazawaf/coraza/v3/verifrt/simsync"
)

// selftest checks the simulator itself: the race detector still sees
// unsynchronised accesses under the fully serialised scheduler, stays silent
// for properly synchronised ones, atomicity bugs and deadlocks are produced by
// the scheduler, and a seed is one exact execution.
func selftest(args []string) int {
	fail := 0
	report := func(name string, ok bool, detail string) {
		st := "ok"
		if !ok {
			st = "FAIL"
			fail++
		}
		fmt.Printf("selftest %-28s %s %s\n", name, st, detail)
	}
	raceDelta()

	// 1. unsynchronised accesses are reported
	{
		var x int
		reported := false
		for seed := uint64(1); seed <= 20 && !reported; seed++ {
			w := verifrt.NewWorld(seed)
			verifrt.Install(w)
			s := verifrt.NewSched(w.Sch, verifrt.PolicyRandom)
			s.Run([]func(){
				func() {
					for i := 0; i < 5; i++ {
						verifrt.Y(100)
						x++
					}
				},
				func() {
					for i := 0; i < 5; i++ {
						verifrt.Y(101)
						x++
					}
				},
			})
			if d := raceDelta(); strings.Contains(d, "DATA RACE") {
				reported = true
			}
		}
		if verifrt.RaceEnabled {
			report("race-visible", reported, "")
		} else {
			report("race-visible", true, "(skipped: not a race build)")
		}
	}

	// 2. mutex-protected accesses are silent, exact, and deterministic
	{
		ok := true
		detail := ""
		var hashes []uint64
		for rep := 0; rep < 2; rep++ {
			for seed := uint64(1); seed <= 100; seed++ {
				w := verifrt.NewWorld(seed)
				verifrt.Install(w)
				pol := int(seed % 3)
				s := verifrt.NewSched(w.Sch, pol)
				var mu simsync.Mutex
				cnt := 0
				body := func() {
					for i := 0; i < 10; i++ {
						mu.Lock()
						c := cnt
						verifrt.Y(102)
						cnt = c + 1
						mu.Unlock()
					}
				}
				tasks := s.Run([]func(){body, body, body})
				for _, t := range tasks {
					if t.Panic != nil {
						ok = false
						detail += fmt.Sprintf(" panic:%v", t.Panic)
					}
				}
				if cnt != 30 || s.Deadlock || s.Overrun {
					ok = false
					detail += fmt.Sprintf(" seed=%d cnt=%d dl=%v", seed, cnt, s.Deadlock)
				}
				if rep == 0 {
					hashes = append(hashes, s.TraceHash)
				} else if hashes[seed-1] != s.TraceHash {
					ok = false
					detail += fmt.Sprintf(" seed=%d nondeterministic", seed)
				}
			}
		}
		if d := raceDelta(); strings.Contains(d, "DATA RACE") {
			ok = false
			detail += " race reported for mutex-protected counter:\n" + d
		}
		distinct := map[uint64]bool{}
		for _, h := range hashes {
			distinct[h] = true
		}
		report("mutex-silent-exact-replay", ok, fmt.Sprintf("distinct interleavings=%d%s", len(distinct), detail))
	}

	// 3. atomicity violation is produced
	{
		lost := false
		for seed := uint64(1); seed <= 50 && !lost; seed++ {
			w := verifrt.NewWorld(seed)
			verifrt.Install(w)
			s := verifrt.NewSched(w.Sch, verifrt.PolicyRandom)
			s.RunLen = 2
			var mu simsync.Mutex
			cnt := 0
			body := func() {
				for i := 0; i < 5; i++ {
					mu.Lock()
					c := cnt
					mu.Unlock()
					mu.Lock()
					cnt = c + 1
					mu.Unlock()
				}
			}
			s.Run([]func(){body, body})
			if cnt != 10 {
				lost = true
			}
		}
		report("lost-update-found", lost, "")
		if d := raceDelta(); strings.Contains(d, "DATA RACE") {
			report("lost-update-no-race", false, d)
		}
	}

	// 4. deadlock is detected and the run terminates
	{
		found := false
		for seed := uint64(1); seed <= 50 && !found; seed++ {
			w := verifrt.NewWorld(seed)
			verifrt.Install(w)
			s := verifrt.NewSched(w.Sch, verifrt.PolicyRandom)
			s.RunLen = 1
			var a, b simsync.Mutex
			s.Run([]func(){
				func() { a.Lock(); verifrt.Y(1); b.Lock(); b.Unlock(); a.Unlock() },
				func() { b.Lock(); verifrt.Y(2); a.Lock(); a.Unlock(); b.Unlock() },
			})
			if s.Deadlock {
				found = true
			}
		}
		report("deadlock-found", found, "")
	}

	// 5. pool hand-over edge: Put happens-before the Get that returns the object
	{
		ok := true
		for seed := uint64(1); seed <= 30; seed++ {
			w := verifrt.NewWorld(seed)
			verifrt.Install(w)
			s := verifrt.NewSched(w.Sch, verifrt.PolicyRandom)
			type obj struct{ n int }
			p := &simsync.Pool{New: func() any { return &obj{} }}
			body := func() {
				for i := 0; i < 5; i++ {
					o := p.Get().(*obj)
					o.n++
					verifrt.Y(3)
					o.n++
					p.Put(o)
				}
			}
			s.Run([]func(){body, body, body})
		}
		if d := raceDelta(); strings.Contains(d, "DATA RACE") {
			ok = false
			fmt.Println(d)
		}
		report("pool-edge", ok, "")
	}
	if fail > 0 {
		return 1
	}
	return 0
}
