package main

import (
	"errors"
	"fmt"
	"io"
	"io/fs"
	"os"
	"strings"

	"github.com/corazawaf/coraza/v3/verifrt"
	"github.com/corazawaf/coraza/v3/verifrt/simos"
	"github.com/corazawaf/coraza/v3/verifrt/simsync"
)

// selftest checks the simulator itself: the race detector still sees
// unsynchronised accesses under the fully serialised scheduler, stays silent
// for properly synchronised ones, atomicity bugs and deadlocks are produced by
// the scheduler, and a seed is one exact execution.
func selftest(args []string) int {
	fail := 0
	report := func(name string, ok bool, detail string) {
		st := "ok"
		if !ok {
			st = "FAIL"
			fail++
		}
		fmt.Printf("selftest %-28s %s %s\n", name, st, detail)
	}
	raceDelta()

	// 1. unsynchronised accesses are reported
	{
		var x int
		reported := false
		for seed := uint64(1); seed <= 20 && !reported; seed++ {
			w := verifrt.NewWorld(seed)
			verifrt.Install(w)
			s := verifrt.NewSched(w.Sch, verifrt.PolicyRandom)
			s.Run([]func(){
				func() {
					for i := 0; i < 5; i++ {
						verifrt.Y(100)
						x++
					}
				},
				func() {
					for i := 0; i < 5; i++ {
						verifrt.Y(101)
						x++
					}
				},
			})
			if d := raceDelta(); strings.Contains(d, "DATA RACE") {
				reported = true
			}
		}
		if verifrt.RaceEnabled {
			report("race-visible", reported, "")
		} else {
			report("race-visible", true, "(skipped: not a race build)")
		}
	}

	// 2. mutex-protected accesses are silent, exact, and deterministic
	{
		ok := true
		detail := ""
		var hashes []uint64
		for rep := 0; rep < 2; rep++ {
			for seed := uint64(1); seed <= 100; seed++ {
				w := verifrt.NewWorld(seed)
				verifrt.Install(w)
				pol := int(seed % 3)
				s := verifrt.NewSched(w.Sch, pol)
				var mu simsync.Mutex
				cnt := 0
				body := func() {
					for i := 0; i < 10; i++ {
						mu.Lock()
						c := cnt
						verifrt.Y(102)
						cnt = c + 1
						mu.Unlock()
					}
				}
				tasks := s.Run([]func(){body, body, body})
				for _, t := range tasks {
					if t.Panic != nil {
						ok = false
						detail += fmt.Sprintf(" panic:%v", t.Panic)
					}
				}
				if cnt != 30 || s.Deadlock || s.Overrun {
					ok = false
					detail += fmt.Sprintf(" seed=%d cnt=%d dl=%v", seed, cnt, s.Deadlock)
				}
				if rep == 0 {
					hashes = append(hashes, s.TraceHash)
				} else if hashes[seed-1] != s.TraceHash {
					ok = false
					detail += fmt.Sprintf(" seed=%d nondeterministic", seed)
				}
			}
		}
		if d := raceDelta(); strings.Contains(d, "DATA RACE") {
			ok = false
			detail += " race reported for mutex-protected counter:\n" + d
		}
		distinct := map[uint64]bool{}
		for _, h := range hashes {
			distinct[h] = true
		}
		report("mutex-silent-exact-replay", ok, fmt.Sprintf("distinct interleavings=%d%s", len(distinct), detail))
	}

	// 3. atomicity violation is produced
	{
		lost := false
		for seed := uint64(1); seed <= 50 && !lost; seed++ {
			w := verifrt.NewWorld(seed)
			verifrt.Install(w)
			s := verifrt.NewSched(w.Sch, verifrt.PolicyRandom)
			s.RunLen = 2
			var mu simsync.Mutex
			cnt := 0
			body := func() {
				for i := 0; i < 5; i++ {
					mu.Lock()
					c := cnt
					mu.Unlock()
					mu.Lock()
					cnt = c + 1
					mu.Unlock()
				}
			}
			s.Run([]func(){body, body})
			if cnt != 10 {
				lost = true
			}
		}
		report("lost-update-found", lost, "")
		if d := raceDelta(); strings.Contains(d, "DATA RACE") {
			report("lost-update-no-race", false, d)
		}
	}

	// 4. deadlock is detected and the run terminates
	{
		found := false
		for seed := uint64(1); seed <= 50 && !found; seed++ {
			w := verifrt.NewWorld(seed)
			verifrt.Install(w)
			s := verifrt.NewSched(w.Sch, verifrt.PolicyRandom)
			s.RunLen = 1
			var a, b simsync.Mutex
			s.Run([]func(){
				func() { a.Lock(); verifrt.Y(1); b.Lock(); b.Unlock(); a.Unlock() },
				func() { b.Lock(); verifrt.Y(2); a.Lock(); a.Unlock(); b.Unlock() },
			})
			if s.Deadlock {
				found = true
			}
		}
		report("deadlock-found", found, "")
	}

	// 5. pool hand-over edge: Put happens-before the Get that returns the object
	{
		ok := true
		for seed := uint64(1); seed <= 30; seed++ {
			w := verifrt.NewWorld(seed)
			verifrt.Install(w)
			s := verifrt.NewSched(w.Sch, verifrt.PolicyRandom)
			type obj struct{ n int }
			p := &simsync.Pool{New: func() any { return &obj{} }}
			body := func() {
				for i := 0; i < 5; i++ {
					o := p.Get().(*obj)
					o.n++
					verifrt.Y(3)
					o.n++
					p.Put(o)
				}
			}
			s.Run([]func(){body, body, body})
		}
		if d := raceDelta(); strings.Contains(d, "DATA RACE") {
			ok = false
			fmt.Println(d)
		}
		report("pool-edge", ok, "")
	}
	// 6. simulated disk vs the real one: the same fault-free operation
	// sequences must give the same results (byte counts, data, error classes)
	{
		mism := simosFidelity(3000)
		report("simos-fidelity", mism == "", mism)
	}
	if fail > 0 {
		return 1
	}
	return 0
}

func errClass(err error) string {
	switch {
	case err == nil:
		return "nil"
	case errors.Is(err, io.EOF):
		return "EOF"
	case errors.Is(err, fs.ErrNotExist):
		return "ENOENT"
	case errors.Is(err, fs.ErrExist):
		return "EEXIST"
	case errors.Is(err, fs.ErrClosed):
		return "closed"
	}
	return "other"
}

type fileAPI interface {
	Write([]byte) (int, error)
	Read([]byte) (int, error)
	ReadAt([]byte, int64) (int, error)
	Seek(int64, int) (int64, error)
	Close() error
}

// simosFidelity runs n random operation sequences on the simulated and on the
// real disk and returns a description of the first difference ("" = none).
func simosFidelity(n int) string {
	realDir, err := os.MkdirTemp("", "simos-fidelity")
	if err != nil {
		return "cannot create scratch dir: " + err.Error()
	}
	defer os.RemoveAll(realDir)
	for seq := 0; seq < n; seq++ {
		w := verifrt.NewWorld(uint64(7000 + seq))
		verifrt.Install(w)
		t := w.Work
		simDir := simos.Root + fmt.Sprintf("/fid%d", seq)
		rd := fmt.Sprintf("%s/fid%d", realDir, seq)
		simos.MkdirAll(simDir, 0o755)
		os.MkdirAll(rd, 0o755)
		var sf, rf [3]fileAPI
		var log []string
		for step := 0; step < 25; step++ {
			slot := t.Draw(3)
			name := fmt.Sprintf("/f%d", t.Draw(3))
			var a, b string
			switch t.Draw(10) {
			case 0, 1:
				flag := []int{os.O_RDWR | os.O_CREATE, os.O_RDWR | os.O_CREATE | os.O_EXCL, os.O_WRONLY | os.O_CREATE | os.O_APPEND, os.O_RDONLY, os.O_RDWR | os.O_CREATE | os.O_TRUNC}[t.Draw(5)]
				f1, e1 := simos.OpenFile(simDir+name, flag, 0o644)
				f2, e2 := os.OpenFile(rd+name, flag, 0o644)
				a, b = "open "+errClass(e1), "open "+errClass(e2)
				if e1 == nil {
					if sf[slot] != nil {
						sf[slot].Close()
					}
					sf[slot] = f1
				}
				if e2 == nil {
					if rf[slot] != nil {
						rf[slot].Close()
					}
					rf[slot] = f2
				}
			case 2, 3:
				if sf[slot] == nil || rf[slot] == nil {
					continue
				}
				data := randBytes(t, t.Draw(20), "abcdef")
				n1, e1 := sf[slot].Write(data)
				n2, e2 := rf[slot].Write(data)
				a, b = fmt.Sprintf("write %d %s", n1, errClass(e1)), fmt.Sprintf("write %d %s", n2, errClass(e2))
			case 4:
				if sf[slot] == nil || rf[slot] == nil {
					continue
				}
				sz, off := t.Draw(16), int64(t.Draw(30))
				b1, b2 := make([]byte, sz), make([]byte, sz)
				n1, e1 := sf[slot].ReadAt(b1, off)
				n2, e2 := rf[slot].ReadAt(b2, off)
				a, b = fmt.Sprintf("readat %d %q %s", n1, b1[:n1], errClass(e1)), fmt.Sprintf("readat %d %q %s", n2, b2[:n2], errClass(e2))
			case 5:
				if sf[slot] == nil || rf[slot] == nil {
					continue
				}
				sz := t.Draw(16)
				b1, b2 := make([]byte, sz), make([]byte, sz)
				n1, e1 := sf[slot].Read(b1)
				n2, e2 := rf[slot].Read(b2)
				a, b = fmt.Sprintf("read %d %q %s", n1, b1[:n1], errClass(e1)), fmt.Sprintf("read %d %q %s", n2, b2[:n2], errClass(e2))
			case 6:
				if sf[slot] == nil || rf[slot] == nil {
					continue
				}
				off, wh := int64(t.Draw(20)), t.Draw(3)
				p1, e1 := sf[slot].Seek(off, wh)
				p2, e2 := rf[slot].Seek(off, wh)
				a, b = fmt.Sprintf("seek %d %s", p1, errClass(e1)), fmt.Sprintf("seek %d %s", p2, errClass(e2))
			case 7:
				if sf[slot] == nil || rf[slot] == nil {
					continue
				}
				e1, e2 := sf[slot].Close(), rf[slot].Close()
				a, b = "close "+errClass(e1), "close "+errClass(e2)
				if t.Draw(2) == 0 {
					sf[slot], rf[slot] = nil, nil
				}
			case 8:
				e1, e2 := simos.Remove(simDir+name), os.Remove(rd+name)
				a, b = "remove "+errClass(e1), "remove "+errClass(e2)
			case 9:
				d1, e1 := simos.ReadFile(simDir + name)
				d2, e2 := os.ReadFile(rd + name)
				a, b = fmt.Sprintf("readfile %q %s", d1, errClass(e1)), fmt.Sprintf("readfile %q %s", d2, errClass(e2))
			}
			log = append(log, a)
			if a != b {
				return fmt.Sprintf("sequence %d step %d: simulated %q, real %q; history %v", seq, step, a, b, log)
			}
		}
		for i := range sf {
			if sf[i] != nil {
				sf[i].Close()
			}
			if rf[i] != nil {
				rf[i].Close()
			}
		}
	}
	return ""
}
