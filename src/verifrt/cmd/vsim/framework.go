package main

import (
	"bytes"
	"encoding/json"
	"fmt"
	"hash/fnv"
	"os"
	"os/exec"
	"path/filepath"
	"regexp"
	"runtime"
	"runtime/debug"
	"sort"
	"strconv"
	"strings"
	"sync"
	"time"

	"github.com/corazawaf/coraza/v3/internal/corazawaf"
	"github.com/corazawaf/coraza/v3/internal/memoize"
	"github.com/corazawaf/coraza/v3/verifrt"
	"github.com/corazawaf/coraza/v3/verifrt/simos"
)

// ---------------------------------------------------------------- types

type Tier int

const (
	Quick Tier = iota
	Thorough
)

func (t Tier) String() string {
	if t == Thorough {
		return "thorough"
	}
	return "quick"
}

// Violation is one failed oracle clause.
type Violation struct {
	Property    string `json:"property"`
	Clause      string `json:"clause"`
	Fingerprint string `json:"fingerprint"`
	Detail      string `json:"detail"`
}

// RunResult is what one simulated run reports.
type RunResult struct {
	Viol       []*Violation
	Hash       uint64 // scenario hash (distinctness)
	Nontrivial bool
	Sample     any              // decoded scenario, kept for a few runs
	Counters   map[string]int64 // probes, fault kinds fired, unchecked cells ...
	Interleave uint64           // hash of the switch sequence (0 = single task)
	Pairs      []uint64
	Tainted    bool // process state may be corrupted (aborted scheduler run): worker must exit
	// Notes: observations of this run that must not depend on what the process
	// did before the run (see historyProbe)
	Notes []runNote
}

type runNote struct {
	Label string `json:"label"`
	JSON  string `json:"json"`
}

func (r *RunResult) note(label string, v any) {
	b, _ := json.Marshal(v)
	r.Notes = append(r.Notes, runNote{label, string(b)})
}

func (r *RunResult) count(k string, n int64) {
	if r.Counters == nil {
		r.Counters = map[string]int64{}
	}
	r.Counters[k] += n
}

func (r *RunResult) fail(prop, clause, fp, format string, a ...any) {
	r.Viol = append(r.Viol, &Violation{Property: prop, Clause: clause, Fingerprint: prop + "/" + clause + "/" + fp, Detail: fmt.Sprintf(format, a...)})
}

// Check is one registered property check.
type Check struct {
	ID        string
	Level     string
	NeedsRace bool // every run executes under the scheduler with the race detector
	Isolated  bool // shrink candidates must run in fresh processes
	// HistoryProbe: sampled runs are repeated in a fresh process and their notes
	// compared: the run must not depend on the runs the worker executed before
	HistoryProbe bool
	// AgedWorker: the last worker never applies the per-run reset of the known
	// process-wide tables and probes its history often: the process ages like a
	// long-lived server (thousands of configurations loaded and dropped)
	AgedWorker  bool
	Age         func() int // optional: what the aged worker does once before its first run; returns how many ageing steps succeeded
	Run         func(w *verifrt.World, tier Tier) *RunResult
	Prepare     func(scratch string) error // parent-side set-up before workers start
	Runs        [2]int                     // run budget per tier (total over all workers)
	MaxSeconds  [2]int
	Rule        string
	Assumptions []string
	Real, Stub  []string
	Unchecked   []string
	// Probes that must be non-zero in the thorough tier
	MustHit []string
}

var checks = map[string]*Check{}

func register(c *Check) { checks[c.ID] = c }

// ---------------------------------------------------------------- replay files

type ReplayFile struct {
	Property    string              `json:"property"`
	Tier        string              `json:"tier"`
	Seed        uint64              `json:"seed"`
	Fingerprint string              `json:"fingerprint"`
	Clause      string              `json:"clause"`
	Detail      string              `json:"detail"`
	Tapes       map[string][]uint32 `json:"tapes"`
	Scenario    any                 `json:"scenario,omitempty"`
	Minimised   bool                `json:"minimised"`
	ShrinkTries int                 `json:"shrink_tries"`
	Note        string              `json:"note,omitempty"`
	// Prelude: seeds of the runs that the same process executed before this one
	// and that must be repeated first (only set when the violation depends on
	// state that survives outside every WAF instance).
	Prelude []uint64 `json:"prelude,omitempty"`
	NoReset bool     `json:"no_reset,omitempty"` // the prelude and the run execute without the per-run reset of process-wide tables
}

type foundViolation struct {
	V     *Violation          `json:"v"`
	Seed  uint64              `json:"seed"`
	Tapes map[string][]uint32 `json:"tapes"`
	Count int                 `json:"count"`
	Base  uint64              `json:"base"` // batch seed, worker index and run index: rs = Mix(Base, Idx<<40|K)
	Idx   int                 `json:"idx"`
	K     int                 `json:"k"`
	Aged  bool                `json:"aged,omitempty"` // found by the aged worker (no per-run reset)
}

type workerOut struct {
	Runs        int                        `json:"runs"`
	Nontrivial  int                        `json:"nontrivial"`
	Hashes      []uint64                   `json:"hashes"`
	NTHashes    []uint64                   `json:"nt_hashes"`
	Interleaves []uint64                   `json:"interleaves"`
	Pairs       []uint64                   `json:"pairs"`
	Counters    map[string]int64           `json:"counters"`
	Samples     []any                      `json:"samples"`
	Found       map[string]*foundViolation `json:"found"`
	Fatal       string                     `json:"fatal,omitempty"`
	SimNs       int64                      `json:"sim_ns"`
	WallS       float64                    `json:"wall_s"`
	Seeds       []uint64                   `json:"seeds"`
}

// ---------------------------------------------------------------- running one scenario

var raceLogPath string // set from VSIM_RACELOG
var raceLogOff int64

var raceHdr = regexp.MustCompile(`(?m)^WARNING: DATA RACE`)
var frameRe = regexp.MustCompile(`(?m)^\s+(\S+)\(.*\)\n\s+(\S+):(\d+)`)

// raceDelta returns race reports written since the last call.
func raceDelta() string {
	if raceLogPath == "" {
		return ""
	}
	m, _ := filepath.Glob(raceLogPath + ".*")
	var sb strings.Builder
	for _, f := range m {
		b, err := os.ReadFile(f)
		if err != nil {
			continue
		}
		sb.Write(b)
	}
	all := sb.String()
	if int64(len(all)) <= raceLogOff {
		return ""
	}
	d := all[raceLogOff:]
	raceLogOff = int64(len(all))
	return d
}

// raceFingerprint summarises a race report by the repository function that
// performs a WRITE to the racy location (function names only: stable under line
// shifts).  Which earlier access the detector still remembers varies (its
// shadow cells are evicted pseudo-randomly), the writer is the stable part.
func raceFingerprint(report string) (fp string, inSim bool) {
	blocks := strings.Split(report, "\n\n")
	var writers, all []string
	n := 0
	for _, b := range blocks {
		hdr := strings.TrimSpace(b)
		isAccess := strings.HasPrefix(hdr, "Read at") || strings.HasPrefix(hdr, "Write at") || strings.HasPrefix(hdr, "Previous read at") || strings.HasPrefix(hdr, "Previous write at") ||
			strings.HasPrefix(hdr, "Previous atomic") || strings.HasPrefix(hdr, "Atomic")
		if !isAccess {
			continue
		}
		isWrite := strings.HasPrefix(hdr, "Write at") || strings.HasPrefix(hdr, "Previous write at") || strings.Contains(strings.SplitN(hdr, "\n", 2)[0], "atomic write")
		top := ""
		for fi, m := range frameRe.FindAllStringSubmatch(b, -1) {
			fn, file := m[1], m[2]
			simFrame := strings.Contains(file, "/verifrt/") && !strings.Contains(file, "/verifrt/singleflight/") && !strings.Contains(file, "/verifrt/cmd/")
			if simFrame && (strings.HasSuffix(file, "/verifrt/stubs.go") || strings.Contains(file, "/verifrt/simos/")) {
				// stub of a library object: the race belongs to the caller
				continue
			}
			if fi < 4 && simFrame && top == "" {
				// the access happened inside the simulator (possibly through a
				// runtime helper such as growslice / slicecopy)
				inSim = true
			}
			if strings.Contains(file, "/verifrt/cmd/") || strings.Contains(fn, "verifrt/cmd/") || simFrame {
				continue
			}
			if top == "" && strings.Contains(fn, "github.com/corazawaf/coraza/v3") {
				top = strings.TrimPrefix(fn, "github.com/corazawaf/coraza/v3/")
			}
		}
		if top == "" {
			top = "?"
		}
		all = append(all, top)
		if isWrite {
			writers = append(writers, top)
		}
		n++
		if n == 2 {
			break
		}
	}
	sort.Strings(writers)
	sort.Strings(all)
	if len(writers) > 0 {
		return "W:" + writers[0], inSim
	}
	return strings.Join(all, "|"), inSim
}

// execRun runs one scenario of c in world w with panic capture.
// noReset: this process does not reset the known process-wide tables between
// runs (aged worker, and replays of what it found); spawnNoReset asks the same
// of the replay processes the parent starts.
var noReset, spawnNoReset bool

func execRun(c *Check, w *verifrt.World, tier Tier) (res *RunResult) {
	verifrt.Install(w)
	simos.ResetEnv()
	// every run starts from the process-wide state of a fresh process (except in
	// the aged worker, where the process keeps what earlier runs left)
	if !noReset {
		memoize.VerifResetGlobals()
		corazawaf.VerifResetGlobals()
	}
	verifrt.LiveReset()
	defer func() {
		if r := recover(); r != nil {
			res = &RunResult{}
			res.fail(c.ID, "harness-panic", "panic", "panic outside any API call wrapper: %v\n%s", r, debug.Stack())
		}
	}()
	res = c.Run(w, tier)
	if raceLogPath != "" {
		if d := raceDelta(); d != "" {
			for _, rep := range raceHdr.Split(d, -1) {
				if strings.TrimSpace(rep) == "" || !strings.Contains(rep, "goroutine") {
					continue
				}
				fp, inSim := raceFingerprint(rep)
				if inSim {
					res.fail(c.ID, "SIMULATOR-SELF-RACE", fp, "race report with a simulator frame on top (infrastructure):\n%s", rep)
				} else {
					res.fail(c.ID, "data-race", fp, "WARNING: DATA RACE%s", rep)
				}
			}
		}
	}
	return res
}

func hash64(s string) uint64 {
	h := fnv.New64a()
	h.Write([]byte(s))
	return h.Sum64()
}

// ---------------------------------------------------------------- worker

func workerMain(c *Check, tier Tier, seed uint64, idx, nworkers, runs int, maxSec int, outPath string) {
	out := &workerOut{Counters: map[string]int64{}, Found: map[string]*foundViolation{}}
	start := time.Now()
	hs := map[uint64]bool{}
	nth := map[uint64]bool{}
	il := map[uint64]bool{}
	pr := map[uint64]bool{}
	debug.SetGCPercent(400)
	noReset = c.AgedWorker && nworkers > 1 && idx == nworkers-1
	if noReset {
		out.Counters["aged_worker"] = 1
		if c.Age != nil {
			verifrt.Install(verifrt.NewWorld(verifrt.Mix(seed, 0xa9ed)))
			out.Counters["aged_steps_ok"] = int64(c.Age())
		}
	}
	for k := 0; k < runs; k++ {
		if time.Since(start).Seconds() > float64(maxSec) {
			break
		}
		rs := verifrt.Mix(seed, uint64(idx)<<40|uint64(k))
		w := verifrt.NewWorld(rs)
		res := execRun(c, w, tier)
		out.Runs++
		if c.HistoryProbe && (probeHistoryAt(c, k) || noReset && k%4 == 3) {
			historyProbe(c, tier, rs, res, filepath.Dir(outPath), k)
		}
		if os.Getenv("VSIM_SELFCHECK") != "" {
			// debugging aid: the same seed in a fresh process must record the same tapes
			if ro, err := spawnReplay(c, tier, rs, nil, filepath.Dir(outPath)); err == nil {
				a, _ := json.Marshal(w.Tapes())
				b, _ := json.Marshal(ro.Tapes)
				if string(a) != string(b) {
					fmt.Fprintf(os.Stderr, "SELFCHECK: run %d seed %d differs from a fresh process: sched %d vs %d, work %d vs %d\n", k, rs, len(w.Tapes()["sched"]), len(ro.Tapes["sched"]), len(w.Tapes()["work"]), len(ro.Tapes["work"]))
				}
			}
		}
		if len(out.Seeds) < 8 {
			out.Seeds = append(out.Seeds, rs)
		}
		out.SimNs += w.NowNanos() - verifrt.Epoch
		hs[res.Hash] = true
		if res.Nontrivial {
			out.Nontrivial++
			nth[res.Hash] = true
		}
		if res.Interleave != 0 {
			il[res.Interleave] = true
		}
		for _, p := range res.Pairs {
			pr[p] = true
		}
		for k, v := range res.Counters {
			out.Counters[k] += v
		}
		if res.Sample != nil && len(out.Samples) < 3 {
			out.Samples = append(out.Samples, res.Sample)
		}
		for _, v := range res.Viol {
			if f, ok := out.Found[v.Fingerprint]; ok {
				f.Count++
				continue
			}
			if len(out.Found) >= 12 {
				continue
			}
			out.Found[v.Fingerprint] = &foundViolation{V: v, Seed: rs, Tapes: w.Tapes(), Count: 1, Base: seed, Idx: idx, K: k, Aged: noReset}
		}
		if res.Tainted {
			// process state may be corrupted; stop this worker (the parent
			// accounts for the shortfall in the evidence)
			out.Counters["worker_stopped_tainted"]++
			break
		}
	}
	for h := range hs {
		out.Hashes = append(out.Hashes, h)
	}
	for h := range nth {
		out.NTHashes = append(out.NTHashes, h)
	}
	for h := range il {
		out.Interleaves = append(out.Interleaves, h)
	}
	for h := range pr {
		out.Pairs = append(out.Pairs, h)
	}
	out.WallS = time.Since(start).Seconds()
	b, _ := json.Marshal(out)
	if err := os.WriteFile(outPath, b, 0o644); err != nil {
		fmt.Fprintln(os.Stderr, "worker: cannot write result:", err)
		os.Exit(2)
	}
}

// ---------------------------------------------------------------- replay (fresh process)

type replayOut struct {
	Viol     []*Violation        `json:"viol"`
	Tapes    map[string][]uint32 `json:"tapes"`
	Scenario any                 `json:"scenario"`
	Notes    []runNote           `json:"notes,omitempty"`
}

// historyProbe repeats the run (same seed, recording mode) in a fresh process
// and compares the notes.  A difference means that the outcome depends on what
// this process executed before the run - state that survives outside every WAF
// instance and that the per-run reset of the known process-wide tables (pattern
// cache, transformation ids) does not cover.
func historyProbe(c *Check, tier Tier, seed uint64, res *RunResult, scratch string, preceding int) {
	res.count("history_probes", 1)
	ro, err := spawnReplay(c, tier, seed, nil, scratch)
	if err != nil {
		res.count("history_probe_errors", 1)
		return
	}
	n := len(res.Notes)
	if len(ro.Notes) < n {
		n = len(ro.Notes)
	}
	for i := 0; i < n; i++ {
		a, b := res.Notes[i], ro.Notes[i]
		if a.Label != b.Label || a.JSON != b.JSON {
			kind := a.Label
			if j := strings.IndexByte(kind, ':'); j >= 0 {
				kind = kind[:j]
			}
			res.fail(c.ID, "depends-on-process-history", kind,
				"the same scenario (seed %d) gives a different outcome in a process that executed %d other scenarios before it than in a fresh process; every scenario builds its own WAF instances, so the difference travels through state outside any WAF\nobservation %q\nin this process:   %s\nin a fresh process: %s",
				seed, preceding, a.Label, clip(a.JSON, 4000), clip(b.JSON, 4000))
			return
		}
	}
	if len(res.Notes) != len(ro.Notes) {
		res.fail(c.ID, "depends-on-process-history", "observations", "seed %d: %d observations in this process (after %d other scenarios), %d in a fresh process", seed, len(res.Notes), preceding, len(ro.Notes))
	}
}

// probeHistoryAt: which runs of a worker are repeated in a fresh process.  A
// fresh process of a race-instrumented harness that has to load a golden table
// costs seconds, so those checks probe at k = 1, 8, 64, ... only.
func probeHistoryAt(c *Check, k int) bool {
	if k <= 0 {
		return false
	}
	if c.NeedsRace {
		for p := 1; p <= k; p *= 8 {
			if p == k {
				return true
			}
		}
		return false
	}
	return k&(k-1) == 0 || k%97 == 0
}

func replayOnce(c *Check, tier Tier, seed uint64, tapes map[string][]uint32, prelude ...uint64) *replayOut {
	if noReset && c.Age != nil {
		verifrt.Install(verifrt.NewWorld(1))
		c.Age()
	}
	for _, ps := range prelude {
		execRun(c, verifrt.NewWorld(ps), tier)
	}
	var w *verifrt.World
	if tapes == nil {
		w = verifrt.NewWorld(seed)
	} else {
		w = verifrt.NewReplayWorld(seed, tapes)
	}
	res := execRun(c, w, tier)
	if len(prelude) > 0 && c.HistoryProbe {
		historyProbe(c, tier, seed, res, os.Getenv("VSIM_SCRATCH"), len(prelude))
	}
	return &replayOut{Viol: res.Viol, Tapes: w.Tapes(), Scenario: res.Sample, Notes: res.Notes}
}

// spawnReplay runs `vsim replayjson` in a fresh process.
func spawnReplay(c *Check, tier Tier, seed uint64, tapes map[string][]uint32, scratch string, prelude ...uint64) (*replayOut, error) {
	in, _ := json.Marshal(map[string]any{"seed": seed, "tapes": tapes, "prelude": prelude, "noreset": spawnNoReset && len(prelude) > 0})
	cmd := exec.Command(os.Args[0], "replayjson", c.ID, tier.String())
	cmd.Stdin = bytes.NewReader(in)
	var stdout, stderr bytes.Buffer
	cmd.Stdout = &stdout
	cmd.Stderr = &stderr
	cmd.Env = workerEnv(scratch, fmt.Sprintf("rp%d", time.Now().UnixNano()))
	done := make(chan error, 1)
	if err := cmd.Start(); err != nil {
		return nil, err
	}
	go func() { done <- cmd.Wait() }()
	select {
	case err := <-done:
		if err != nil {
			return nil, fmt.Errorf("replay process failed: %v\n%s", err, stderr.String())
		}
	case <-time.After(400 * time.Second):
		cmd.Process.Kill()
		return nil, fmt.Errorf("replay process timed out")
	}
	var ro replayOut
	if err := json.Unmarshal(stdout.Bytes(), &ro); err != nil {
		return nil, fmt.Errorf("replay output: %v\n%s\n%s", err, stdout.String(), stderr.String())
	}
	return &ro, nil
}

func workerEnv(scratch, tag string) []string {
	env := os.Environ()
	out := env[:0:0]
	for _, e := range env {
		if strings.HasPrefix(e, "GORACE=") || strings.HasPrefix(e, "VSIM_RACELOG=") {
			continue
		}
		out = append(out, e)
	}
	if verifrt.RaceEnabled {
		lp := filepath.Join(scratch, "race."+tag)
		out = append(out, "GORACE=halt_on_error=0 exitcode=0 history_size=3 log_path="+lp, "VSIM_RACELOG="+lp)
	}
	out = append(out, "TZ=UTC", "LANG=C", "VSIM_SCRATCH="+scratch)
	return out
}

func hasFP(vs []*Violation, fp string) *Violation {
	for _, v := range vs {
		if v.Fingerprint == fp {
			return v
		}
	}
	return nil
}

// ---------------------------------------------------------------- shrinking

// shrink minimises the tapes while the same fingerprint persists.
func shrink(c *Check, tier Tier, seed uint64, tapes map[string][]uint32, fp string, scratch string, deadline time.Time) (map[string][]uint32, int) {
	tries := 0
	test := func(t map[string][]uint32) bool {
		tries++
		var ro *replayOut
		if c.Isolated || c.NeedsRace {
			r, err := spawnReplay(c, tier, seed, t, scratch)
			if err != nil {
				return false
			}
			ro = r
		} else {
			ro = replayOnce(c, tier, seed, t)
		}
		return hasFP(ro.Viol, fp) != nil
	}
	cur := map[string][]uint32{}
	for k, v := range tapes {
		cur[k] = append([]uint32(nil), v...)
	}
	maxTries := 400
	if c.Isolated || c.NeedsRace {
		maxTries = 24 // each candidate is a fresh process
	}
	names := []string{"fault", "sched", "map", "pool", "work"}
	improved := true
	for improved && tries < maxTries && time.Now().Before(deadline) {
		improved = false
		for _, name := range names {
			t := cur[name]
			// 1. truncate / delete chunks
			for size := len(t); size >= 1 && tries < maxTries; size /= 2 {
				for i := 0; i+size <= len(t) && tries < maxTries && time.Now().Before(deadline); {
					cand := append(append([]uint32(nil), t[:i]...), t[i+size:]...)
					trial := cloneTapes(cur)
					trial[name] = cand
					if test(trial) {
						t = cand
						cur[name] = cand
						improved = true
					} else {
						i += size
					}
				}
			}
			// 2. zero / halve values
			for i := 0; i < len(t) && tries < maxTries && time.Now().Before(deadline); i++ {
				if t[i] == 0 {
					continue
				}
				for _, nv := range []uint32{0, t[i] / 2, t[i] - 1} {
					if nv >= t[i] {
						continue
					}
					cand := append([]uint32(nil), t...)
					cand[i] = nv
					trial := cloneTapes(cur)
					trial[name] = cand
					if test(trial) {
						t = cand
						cur[name] = cand
						improved = true
						break
					}
				}
			}
		}
	}
	return cur, tries
}

func cloneTapes(t map[string][]uint32) map[string][]uint32 {
	o := map[string][]uint32{}
	for k, v := range t {
		o[k] = v
	}
	return o
}

// ---------------------------------------------------------------- known findings

type KnownFinding struct {
	Property    string `json:"property"`
	Status      string `json:"status"` // "open" or "fixed"
	Fingerprint string `json:"fingerprint"`
	What        string `json:"what"`
	Commit      string `json:"commit,omitempty"`
	Scenario    any    `json:"scenario,omitempty"`
}

func loadKnown(path string) []KnownFinding {
	var kf struct {
		Findings []KnownFinding `json:"findings"`
	}
	b, err := os.ReadFile(path)
	if err != nil {
		return nil
	}
	if err := json.Unmarshal(b, &kf); err != nil {
		fmt.Fprintf(os.Stderr, "known findings file %s is not valid JSON: %v\n", path, err)
		os.Exit(2)
	}
	return kf.Findings
}

// ---------------------------------------------------------------- parent

type evidence struct {
	PropertyID  string         `json:"property_id"`
	Tier        string         `json:"tier"`
	Seed        int64          `json:"seed"`
	Level       string         `json:"level"`
	Coverage    map[string]any `json:"coverage"`
	Assumptions []string       `json:"assumptions"`
	WallS       float64        `json:"wall_s"`
	Violations  int            `json:"violations"`
}

func parentMain(c *Check, tier Tier, seed uint64, nworkers int, evidencePath, replayDir, knownPath, scratch string) int {
	start := time.Now()
	// replay files of earlier runs of this property are stale
	if old, _ := filepath.Glob(filepath.Join(replayDir, c.ID, "*.json")); len(old) > 0 && os.Getenv("VSIM_EXTRA_EVIDENCE") == "" {
		for _, f := range old {
			os.Remove(f)
		}
	}
	runs := c.Runs[tier]
	maxSec := c.MaxSeconds[tier]
	if v := os.Getenv("VSIM_RUNS"); v != "" {
		runs, _ = strconv.Atoi(v)
	}
	if v := os.Getenv("VSIM_MAXSEC"); v != "" {
		maxSec, _ = strconv.Atoi(v)
	}
	if nworkers > runs {
		nworkers = runs
	}
	if nworkers < 1 {
		nworkers = 1
	}
	per := (runs + nworkers - 1) / nworkers
	if c.Prepare != nil {
		if err := c.Prepare(scratch); err != nil {
			fmt.Fprintf(os.Stderr, "INFRASTRUCTURE: %v\n", err)
			return 2
		}
	}
	var wg sync.WaitGroup
	outs := make([]*workerOut, nworkers)
	errs := make([]string, nworkers)
	for i := 0; i < nworkers; i++ {
		wg.Add(1)
		go func(i int) {
			defer wg.Done()
			op := filepath.Join(scratch, fmt.Sprintf("worker%d.json", i))
			cmd := exec.Command(os.Args[0], "worker", c.ID, tier.String(), strconv.FormatUint(seed, 10), strconv.Itoa(i), strconv.Itoa(nworkers), strconv.Itoa(per), strconv.Itoa(maxSec), op)
			cmd.Env = workerEnv(scratch, fmt.Sprintf("w%d", i))
			var stderr bytes.Buffer
			cmd.Stderr = &stderr
			cmd.Stdout = &stderr
			done := make(chan error, 1)
			if err := cmd.Start(); err != nil {
				errs[i] = err.Error()
				return
			}
			go func() { done <- cmd.Wait() }()
			select {
			case err := <-done:
				if err != nil {
					errs[i] = fmt.Sprintf("worker %d: %v\n%s", i, err, tail(stderr.String(), 4000))
					return
				}
			case <-time.After(time.Duration(maxSec+180) * time.Second):
				cmd.Process.Kill()
				errs[i] = fmt.Sprintf("worker %d: watchdog: no result after %d s (hang inside uninstrumented code or harness trouble)\n%s", i, maxSec+180, tail(stderr.String(), 4000))
				return
			}
			b, err := os.ReadFile(op)
			if err != nil {
				errs[i] = err.Error()
				return
			}
			var wo workerOut
			if err := json.Unmarshal(b, &wo); err != nil {
				errs[i] = err.Error()
				return
			}
			outs[i] = &wo
		}(i)
	}
	wg.Wait()
	for _, e := range errs {
		if e != "" {
			fmt.Fprintf(os.Stderr, "INFRASTRUCTURE: %s\n", e)
			return 2
		}
	}

	// merge
	total := &workerOut{Counters: map[string]int64{}, Found: map[string]*foundViolation{}}
	hs, nth, il, pr := map[uint64]bool{}, map[uint64]bool{}, map[uint64]bool{}, map[uint64]bool{}
	for _, o := range outs {
		total.Runs += o.Runs
		total.Nontrivial += o.Nontrivial
		total.SimNs += o.SimNs
		for _, h := range o.Hashes {
			hs[h] = true
		}
		for _, h := range o.NTHashes {
			nth[h] = true
		}
		for _, h := range o.Interleaves {
			il[h] = true
		}
		for _, h := range o.Pairs {
			pr[h] = true
		}
		for k, v := range o.Counters {
			total.Counters[k] += v
		}
		if len(total.Samples) < 4 {
			total.Samples = append(total.Samples, o.Samples...)
		}
		total.Seeds = append(total.Seeds, o.Seeds...)
		for fp, f := range o.Found {
			if g, ok := total.Found[fp]; ok {
				g.Count += f.Count
			} else {
				total.Found[fp] = f
			}
		}
	}
	if len(total.Samples) > 4 {
		total.Samples = total.Samples[:4]
	}
	if len(total.Seeds) > 16 {
		total.Seeds = total.Seeds[:16]
	}

	// violations: confirm in a fresh process, minimise, classify
	known := loadKnown(knownPath)
	exit := 0
	var fps []string
	for fp := range total.Found {
		fps = append(fps, fp)
	}
	sort.Strings(fps)
	nviol := 0
	knownHit := map[string]bool{}
	var lines []string
	budget := time.Now().Add(240 * time.Second)
	var unrepro []string
	for _, fp := range fps {
		f := total.Found[fp]
		if f.V.Clause == "SIMULATOR-SELF-RACE" {
			fmt.Fprintf(os.Stderr, "INFRASTRUCTURE: %s\n%s\n", fp, f.V.Detail)
			return 2
		}
		// confirm in a fresh process.  The schedule replays exactly; what the race
		// detector still remembers when the second access happens does not always
		// (its shadow cells are evicted pseudo-randomly), so a data-race report is
		// given a few attempts and, being evidence by itself (the detector has no
		// false positives), is kept even if the detector stays silent on replay.
		var ro *replayOut
		var err error
		var cv *Violation
		attempts := 1
		if f.V.Clause == "data-race" {
			attempts = 4
		}
		for a := 0; a < attempts && cv == nil; a++ {
			ro, err = spawnReplay(c, tier, f.Seed, f.Tapes, scratch)
			if err != nil {
				fmt.Fprintf(os.Stderr, "INFRASTRUCTURE: cannot replay %s: %v\n", fp, err)
				return 2
			}
			cv = hasFP(ro.Viol, fp)
		}
		unconfirmedRace := false
		var prelude []uint64
		if cv == nil && f.V.Clause != "data-race" {
			// The run alone does not show it: repeat, in a fresh process, the runs the
			// worker executed before it (the last 1, 3, 7, ... of them). State that
			// survives outside every WAF instance (a package-level cache or free list
			// introduced by a change) makes a run depend on its predecessors in the
			// process; that history is then part of the replay file.
			spawnNoReset = f.Aged
			for m := 1; cv == nil && f.K > 0; m = 2*m + 1 {
				if m > f.K {
					m = f.K
				}
				prelude = prelude[:0]
				for j := f.K - m; j < f.K; j++ {
					prelude = append(prelude, verifrt.Mix(f.Base, uint64(f.Idx)<<40|uint64(j)))
				}
				r2, err := spawnReplay(c, tier, f.Seed, f.Tapes, scratch, prelude...)
				if err == nil {
					if cv = hasFP(r2.Viol, fp); cv != nil {
						ro = r2
					}
				}
				if m == f.K {
					break
				}
			}
			if cv == nil {
				prelude = nil
			}
		}
		if cv == nil {
			if f.V.Clause != "data-race" {
				// kept aside: it decides the exit status only if no other
				// violation of this batch is confirmed (a confirmed violation is a
				// verdict; an unconfirmed one alone is infrastructure trouble)
				unrepro = append(unrepro, fmt.Sprintf("violation %s (seed %d) did not reproduce in a fresh process, alone or after the worker's preceding runs; first report:\n%s", fp, f.Seed, clip(f.V.Detail, 3000)))
				continue
			}
			unconfirmedRace = true
			ro.Viol = append(ro.Viol, f.V)
		}
		// known finding?
		matched := false
		for _, k := range known {
			if k.Status == "open" && k.Property == c.ID && k.Fingerprint == fp {
				matched = true
				if !knownHit[fp] {
					knownHit[fp] = true
					lines = append(lines, fmt.Sprintf("KNOWN-FINDING: property=%s %s", c.ID, k.What))
				}
			}
		}
		if matched {
			continue
		}
		nviol++
		tapes, tries := f.Tapes, 0
		minimised := false
		if nviol <= 3 && !unconfirmedRace && prelude == nil {
			tapes, tries = shrink(c, tier, f.Seed, f.Tapes, fp, scratch, budget)
			minimised = true
		}
		fin, err := spawnReplay(c, tier, f.Seed, tapes, scratch, prelude...)
		if err != nil || hasFP(fin.Viol, fp) == nil {
			// minimised tape must reproduce; fall back to the original
			tapes, fin, minimised = f.Tapes, ro, false
		}
		v := hasFP(fin.Viol, fp)
		rf := &ReplayFile{Property: c.ID, Tier: tier.String(), Seed: f.Seed, Fingerprint: fp, Clause: v.Clause, Detail: v.Detail,
			Tapes: fin.Tapes, Scenario: fin.Scenario, Minimised: minimised, ShrinkTries: tries}
		if prelude != nil {
			rf.NoReset = f.Aged
			rf.Prelude = append([]uint64(nil), prelude...)
			rf.Note = fmt.Sprintf("reproduces only after the %d preceding runs of the same process (prelude): the outcome depends on state that survives outside every WAF instance", len(prelude))
		}
		if unconfirmedRace {
			rf.Note = "the schedule replays exactly but the race detector did not repeat its report in 4 fresh processes (shadow-cell eviction); the original report is in detail"
		}
		os.MkdirAll(filepath.Join(replayDir, c.ID), 0o755)
		name := filepath.Join(replayDir, c.ID, fmt.Sprintf("%016x.json", hash64(fp)))
		b, _ := json.MarshalIndent(rf, "", " ")
		b = compactNumberArrays(b)
		os.WriteFile(name, b, 0o644)
		lines = append(lines, fmt.Sprintf("VIOLATION property=%s replay=%s", c.ID, name))
		fmt.Fprintf(os.Stderr, "--- %s (seen %d times)\n%s\n", fp, f.Count, clip(v.Detail, 3000))
		exit = 1
	}

	for _, u := range unrepro {
		if exit == 1 {
			fmt.Fprintf(os.Stderr, "NOTE (not counted): %s\n", u)
		} else {
			fmt.Fprintf(os.Stderr, "INFRASTRUCTURE: %s\n", u)
		}
	}
	if len(unrepro) > 0 && exit == 0 {
		return 2
	}

	// evidence
	wall := time.Since(start).Seconds()
	cov := map[string]any{
		"evaluations":         total.Runs,
		"distinct_nontrivial": len(nth),
		"distinct_scenarios":  len(hs),
		"nontrivial_runs":     total.Nontrivial,
		"rule":                c.Rule,
		"samples":             total.Samples,
		"runs_per_hour":       int(float64(total.Runs) / wall * 3600),
		"seeds":               total.Seeds,
		"workers":             nworkers,
		"simulated_time_s":    float64(total.SimNs) / 1e9,
		"counters":            total.Counters,
		"components_real":     c.Real,
		"components_stub":     c.Stub,
		"unchecked_by_design": c.Unchecked,
		"go":                  runtime.Version(),
		"race_detector":       verifrt.RaceEnabled,
	}
	if extra := os.Getenv("VSIM_EXTRA_EVIDENCE"); extra != "" {
		if b, err := os.ReadFile(extra); err == nil {
			var ev2 map[string]any
			if json.Unmarshal(b, &ev2) == nil {
				cov["secondary_build"] = map[string]any{"tags": "coraza.rule.multiphase_evaluation", "evidence": ev2}
			}
		}
	}
	if len(il) > 0 {
		cov["distinct_interleavings"] = len(il)
		cov["distinct_switch_pairs"] = len(pr)
	}
	if len(cov["samples"].([]any)) == 0 {
		cov["samples"] = []any{"(no sample recorded)"}
	}
	probeFail := ""
	if tier == Thorough {
		for _, p := range c.MustHit {
			if total.Counters[p] == 0 {
				probeFail += " " + p
			}
		}
	}
	if probeFail != "" {
		cov["probes_never_hit"] = strings.Fields(probeFail)
	}
	ev := evidence{PropertyID: c.ID, Tier: tier.String(), Seed: int64(seed & 0x7fffffffffffffff), Level: c.Level, Coverage: cov, Assumptions: c.Assumptions, WallS: wall, Violations: nviol}
	b, _ := json.MarshalIndent(ev, "", " ")
	os.MkdirAll(filepath.Dir(evidencePath), 0o755)
	if err := os.WriteFile(evidencePath, b, 0o644); err != nil {
		fmt.Fprintf(os.Stderr, "INFRASTRUCTURE: cannot write evidence: %v\n", err)
		return 2
	}
	for _, l := range lines {
		fmt.Println(l)
	}
	fmt.Printf("%s %s: %d runs, %d distinct non-trivial scenarios, %d violations, %d known findings, %.1f s\n", c.ID, tier, total.Runs, len(nth), nviol, len(knownHit), wall)
	if probeFail != "" {
		// reach, not correctness: recorded in the evidence (coverage.probes_never_hit)
		// and said aloud, but never turned into a failing exit status - a tree that
		// legitimately no longer takes a branch (e.g. no pooling) still holds the property
		fmt.Fprintf(os.Stderr, "WARNING: thorough tier reach probes never hit:%s\n", probeFail)
	}
	return exit
}

func tail(s string, n int) string {
	if len(s) <= n {
		return s
	}
	return "..." + s[len(s)-n:]
}

var numArr = regexp.MustCompile(`\[\s*(\d+(?:,\s*\d+)*)\s*\]`)
var wsRe = regexp.MustCompile(`\s+`)

// compactNumberArrays puts arrays of numbers (tapes) on one line.
func compactNumberArrays(b []byte) []byte {
	return numArr.ReplaceAllFunc(b, func(m []byte) []byte { return wsRe.ReplaceAll(m, nil) })
}

// detTest runs n seeds, each in three fresh processes at GOMAXPROCS 1, 4 and 16,
// and compares recorded tapes, scenario and violations byte for byte.
func detTest(c *Check, tier Tier, n int, scratch string) int {
	if c.Prepare != nil {
		if err := c.Prepare(scratch); err != nil {
			fmt.Fprintln(os.Stderr, err)
			return 2
		}
	}
	bad := 0
	var mu sync.Mutex
	sem := make(chan struct{}, 8)
	var wg sync.WaitGroup
	for i := 0; i < n; i++ {
		wg.Add(1)
		sem <- struct{}{}
		go func(i int) {
			defer wg.Done()
			defer func() { <-sem }()
			seed := verifrt.Mix(424242, uint64(i))
			var first string
			for _, procs := range []string{"1", "4", "16"} {
				in, _ := json.Marshal(map[string]any{"seed": seed})
				cmd := exec.Command(os.Args[0], "replayjson", c.ID, tier.String())
				cmd.Stdin = bytes.NewReader(in)
				cmd.Env = append(workerEnv(scratch, fmt.Sprintf("dt%d-%s", i, procs)), "GOMAXPROCS="+procs)
				out, err := cmd.Output()
				if err != nil {
					mu.Lock()
					fmt.Printf("dettest %s seed %d: process failed: %v\n", c.ID, seed, err)
					bad++
					mu.Unlock()
					return
				}
				var ro replayOut
				json.Unmarshal(out, &ro)
				var fps []string
				for _, v := range ro.Viol {
					fps = append(fps, v.Fingerprint)
				}
				sort.Strings(fps)
				tb, _ := json.Marshal(ro.Tapes)
				sb, _ := json.Marshal(ro.Scenario)
				sig := fmt.Sprintf("%x %x %v", hash64(string(tb)), hash64(string(sb)), fps)
				if first == "" {
					first = sig
				} else if sig != first {
					mu.Lock()
					fmt.Printf("dettest %s seed %d: NONDETERMINISTIC: %s vs %s (GOMAXPROCS %s)\n", c.ID, seed, first, sig, procs)
					bad++
					mu.Unlock()
					return
				}
			}
		}(i)
	}
	wg.Wait()
	fmt.Printf("dettest %s: %d seeds x 3 processes, %d mismatches\n", c.ID, n, bad)
	if bad > 0 {
		return 1
	}
	return 0
}
