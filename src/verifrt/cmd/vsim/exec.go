package main

import (
	"fmt"
	"io"
	"sort"
	"strings"
	"unsafe"

	"github.com/corazawaf/coraza/v3/internal/corazawaf"
	"github.com/corazawaf/coraza/v3/types"
	"github.com/corazawaf/coraza/v3/verifrt"
)

// Outcome is the normalised observable result of one transaction (§2.4).
type Outcome struct {
	Steps       []string          `json:"steps"` // one line per API call with its return value
	Interrupted *itRec            `json:"interrupted"`
	Fired       []int             `json:"fired"` // rule ids in firing order (dump rule excluded)
	Data        map[int][]string  `json:"data"`  // rule id -> sorted multiset of VAR:key=value
	Msgs        map[int]string    `json:"msgs,omitempty"`
	TX          map[string]string `json:"tx,omitempty"`
	ReqBody     string            `json:"req_body"`
	RespBody    string            `json:"resp_body"`
	CloseErr    string            `json:"close_err,omitempty"`
	Panic       string            `json:"panic,omitempty"`
	PanicStep   string            `json:"panic_step,omitempty"`
	ErrCB       []int             `json:"err_cb,omitempty"`
	Audit       []string          `json:"audit,omitempty"`
	HeldReader  string            `json:"held_reader,omitempty"`
	// readers obtained before Close and kept by the caller (HoldReader): read
	// again after later transactions used the recycled object
	heldLate []io.Reader
	// ErrVars: the error variables read directly from the transaction before
	// Close (rules cannot dump them once a rule has switched the engine off)
	ErrVars     map[string]string `json:"-"`
	ErrSteps    []string          `json:"err_steps,omitempty"` // steps that returned a non-nil error
	DebugErrors int               `json:"debug_errors"`
	Excl        string            `json:"exclusivity,omitempty"`
}

func ifacePtr(x any) unsafe.Pointer { return (*[2]unsafe.Pointer)(unsafe.Pointer(&x))[1] }

type step struct {
	name string
	run  func() string
}

// runTx executes script s on h.  Every API call runs under recover.
func runTx(h *wafHandle, s *TxScript) *Outcome {
	out := &Outcome{Data: map[int][]string{}, Msgs: map[int]string{}, TX: map[string]string{}}
	cbBefore, dbgBefore := 0, 0
	if !h.Concurrent {
		cbBefore = len(h.ErrCB)
		dbgBefore = h.DebugBuf.Len()
	}
	var tx types.Transaction
	if p := safely(func() { tx = h.WAF.NewTransactionWithID(s.ID) }); p != "" {
		out.Panic, out.PanicStep = p, "NewTransaction"
		return out
	}
	var rec *recWriter
	if itx, ok := tx.(*corazawaf.Transaction); ok && itx.WAF != nil {
		rec, _ = itx.WAF.AuditLogWriter().(*recWriter)
		if s.stampOut != nil {
			*s.stampOut = itx.Timestamp
		}
	}
	if h.Concurrent {
		// pool exclusivity: the object must not be live in another task
		if !verifrt.LiveAdd(ifacePtr(tx)) {
			out.Excl = fmt.Sprintf("NewTransaction for %s returned an object that is still in use by another live transaction", s.ID)
		}
	}
	itS := func(it *types.Interruption) string { return itOf(it).String() }
	errS := func(err error) string {
		if err != nil {
			return "ERR"
		}
		return "nil"
	}
	var steps []step
	add := func(name string, f func() string) { steps = append(steps, step{name, f}) }
	add("ProcessConnection", func() string { tx.ProcessConnection("10.1.2.3", 40000, "10.0.0.1", 80); return "" })
	add("ProcessURI", func() string { tx.ProcessURI(s.URI, s.Method, "HTTP/1.1"); return "" })
	add("AddRequestHeaders", func() string {
		for _, hd := range s.Headers {
			tx.AddRequestHeader(hd.K, hd.V)
		}
		if s.ContentType != "" {
			tx.AddRequestHeader("Content-Type", s.ContentType)
		}
		return ""
	})
	add("ProcessRequestHeaders", func() string { return itS(tx.ProcessRequestHeaders()) })
	if s.BodyKind != "" {
		body := s.Body
		if s.BodyReader == 0 {
			pos := 0
			for i := 0; pos < len(body) || (i == 0 && len(body) == 0); i++ {
				n := len(body) - pos
				if i < len(s.BodyChunks) && s.BodyChunks[i] < n {
					n = s.BodyChunks[i]
				}
				chunk := body[pos : pos+n]
				pos += n
				add("WriteRequestBody", func() string {
					it, w, err := tx.WriteRequestBody(chunk)
					if err != nil {
						out.ErrSteps = append(out.ErrSteps, "WriteRequestBody")
					}
					return fmt.Sprintf("%s n=%d err=%s", itS(it), w, errS(err))
				})
				if len(body) == 0 {
					break
				}
			}
		} else {
			add("ReadRequestBodyFrom", func() string {
				it, w, err := tx.ReadRequestBodyFrom(newReader(body, s.BodyChunks, -1, s.BodyReader == 1))
				if err != nil {
					out.ErrSteps = append(out.ErrSteps, "ReadRequestBodyFrom")
				}
				return fmt.Sprintf("%s n=%d err=%s", itS(it), w, errS(err))
			})
		}
	}
	add("ProcessRequestBody", func() string {
		it, err := tx.ProcessRequestBody()
		if err != nil {
			out.ErrSteps = append(out.ErrSteps, "ProcessRequestBody")
		}
		return fmt.Sprintf("%s err=%s", itS(it), errS(err))
	})
	add("AddResponseHeaders", func() string {
		for _, hd := range s.RespHeaders {
			tx.AddResponseHeader(hd.K, hd.V)
		}
		return ""
	})
	add("ProcessResponseHeaders", func() string { return itS(tx.ProcessResponseHeaders(s.RespStatus, "HTTP/1.1")) })
	if len(s.RespBody) > 0 {
		add("WriteResponseBody", func() string {
			it, w, err := tx.WriteResponseBody(s.RespBody)
			if err != nil {
				out.ErrSteps = append(out.ErrSteps, "WriteResponseBody")
			}
			return fmt.Sprintf("%s n=%d err=%s", itS(it), w, errS(err))
		})
	}
	add("ProcessResponseBody", func() string {
		it, err := tx.ProcessResponseBody()
		if err != nil {
			out.ErrSteps = append(out.ErrSteps, "ProcessResponseBody")
		}
		return fmt.Sprintf("%s err=%s", itS(it), errS(err))
	})
	if !s.NoLogging {
		add("ProcessLogging", func() string { tx.ProcessLogging(); return "" })
	}

	n := len(steps)
	if s.StopAfter >= 0 && s.StopAfter < n {
		n = s.StopAfter
	}
	var held io.Reader
	for i := 0; i < n; i++ {
		st := steps[i]
		var r string
		if p := safely(func() { r = st.run() }); p != "" {
			out.Panic, out.PanicStep = p, st.name
			break
		}
		out.Steps = append(out.Steps, st.name+" -> "+r)
		if s.HoldReader && st.name == "ProcessRequestBody" {
			held, _ = tx.RequestBodyReader()
			if r2, err := tx.RequestBodyReader(); err == nil && r2 != nil {
				out.heldLate = append(out.heldLate, r2)
			}
		}
		if s.HoldReader && st.name == "ProcessResponseBody" {
			if r2, err := tx.ResponseBodyReader(); err == nil && r2 != nil {
				out.heldLate = append(out.heldLate, r2)
			}
		}
	}
	if out.Panic == "" {
		if p := safely(func() { observe(tx, out) }); p != "" {
			out.Panic, out.PanicStep = p, "observe"
		}
	}
	if h.Concurrent {
		verifrt.LiveRemove(ifacePtr(tx))
	}
	if s.beforeClose != nil {
		s.beforeClose()
	}
	if !s.NoClose {
		if p := safely(func() {
			if err := tx.Close(); err != nil {
				out.CloseErr = "ERR"
			}
			if s.DoubleClose {
				tx.Close()
			}
		}); p != "" && out.Panic == "" {
			out.Panic, out.PanicStep = p, "Close"
		}
	}
	if held != nil {
		b, err := io.ReadAll(held)
		out.HeldReader = fmt.Sprintf("%q err=%v", b, err != nil)
		out.heldLate = append(out.heldLate, held)
	}
	if !h.Concurrent {
		for _, c := range h.ErrCB[cbBefore:] {
			out.ErrCB = append(out.ErrCB, c.RuleID)
		}
		out.DebugErrors = strings.Count(h.DebugBuf.String()[dbgBefore:], "\n")
	}
	if rec != nil {
		if !h.Concurrent {
			h.Rec = rec
		}
		for _, r := range rec.Records {
			if r.ID == s.ID {
				ids := append([]int(nil), r.RuleIDs...)
				sort.Ints(ids)
				parts := ""
				if r.Log != nil {
					for _, p := range r.Log.Parts() {
						parts += string(rune(p))
					}
				}
				out.Audit = append(out.Audit, fmt.Sprintf("parts=%s rules=%v", parts, ids))
			}
		}
	}
	return out
}

func observe(tx types.Transaction, out *Outcome) {
	out.Interrupted = itOf(tx.Interruption())
	if itx, ok := tx.(*corazawaf.Transaction); ok {
		v := itx.Variables()
		out.ErrVars = map[string]string{
			"REQBODY_ERROR": v.RequestBodyError().Get(), "REQBODY_ERROR_MSG": v.RequestBodyErrorMsg().Get(),
			"REQBODY_PROCESSOR_ERROR": v.RequestBodyProcessorError().Get(), "REQBODY_PROCESSOR_ERROR_MSG": v.RequestBodyProcessorErrorMsg().Get(),
			"MULTIPART_STRICT_ERROR": v.MultipartStrictError().Get(), "INBOUND_DATA_ERROR": v.InboundDataError().Get(),
			"OUTBOUND_DATA_ERROR": v.OutboundDataError().Get(), "URLENCODED_ERROR": v.UrlencodedError().Get(),
		}
	}
	for _, mr := range tx.MatchedRules() {
		id := mr.Rule().ID()
		if id == dumpRuleID {
			for _, md := range mr.MatchedDatas() {
				out.TX[md.Key()] = md.Value()
			}
			continue
		}
		out.Fired = append(out.Fired, id)
		for _, md := range mr.MatchedDatas() {
			out.Data[id] = append(out.Data[id], fmt.Sprintf("%s:%s=%s", md.Variable().Name(), md.Key(), md.Value()))
		}
		if mr.Message() != "" {
			out.Msgs[id] = mr.Message()
		}
	}
	for id := range out.Data {
		sort.Strings(out.Data[id])
	}
	if r, err := tx.RequestBodyReader(); err == nil {
		b, err := io.ReadAll(r)
		out.ReqBody = string(b)
		if err != nil {
			out.ErrSteps = append(out.ErrSteps, "RequestBodyReader.Read")
		}
	}
	if r, err := tx.ResponseBodyReader(); err == nil {
		b, err := io.ReadAll(r)
		out.RespBody = string(b)
		if err != nil {
			out.ErrSteps = append(out.ErrSteps, "ResponseBodyReader.Read")
		}
	}
}
