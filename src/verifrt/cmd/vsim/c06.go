package main

import (
	"encoding/json"
	"fmt"
	"strings"

	coraza "github.com/corazawaf/coraza/v3"
	"github.com/corazawaf/coraza/v3/verifrt"
	"github.com/corazawaf/coraza/v3/verifrt/simos"
)

// C06 - a WAF is safe to share: concurrent transactions are race-free and independent.
//
// Simulated: 2-8 tasks under the seeded scheduler: transaction tasks on one
// shared WAF, builder tasks constructing and closing other WAFs that share
// patterns with it (process-wide pattern cache, transformation-id table), and
// churn tasks that only create and close transactions.  Oracles: race detector
// silent, no panic / deadlock, pool exclusivity, every transaction's outcome
// equals its outcome when run alone on a WAF built alone.

var c06Opts = genOpts{
	MaxRules: 6, Phases: []int{1, 1, 2, 2, 3, 4, 5}, Disruptive: 7, Flow: true, Ctl: true, Dyn: true, Chains: true,
	Response: true, Capture: true, MultiMatch: true, LogFlags: true, Exclusions: true, RegexKeys: true, Counts: true,
}

type c06Scenario struct {
	Config   string        `json:"config"`
	Builders []string      `json:"builder_configs"`
	Tasks    [][]*TxScript `json:"tx_tasks"`
	Churn    int           `json:"churn_tasks"`
	Policy   int           `json:"policy"`
	RunLen   int           `json:"run_len"`
}

// rules that exercise shared mutable state reachable from the shared rule set
func c06Special(t *verifrt.Tape) []string {
	pool := []string{
		// per-transaction target removal on a rule that already has configured exclusions
		`SecRule ARGS|!ARGS:x1|!ARGS:id|!ARGS:c "@rx ^[a-z]+$" "id:151,phase:2,pass,nolog,t:lowercase,setvar:tx.cnt=+1"`,
		`SecRule REQUEST_URI "@contains tok" "id:152,phase:1,pass,nolog,ctl:ruleRemoveTargetById=151;ARGS:a"`,
		`SecRule REQUEST_URI "@contains index" "id:153,phase:1,pass,nolog,ctl:ruleRemoveTargetById=151;ARGS:b"`,
		`SecRule ARGS_GET:/^a/ "@pm evil foo tok1" "id:154,phase:1,pass,nolog,capture,setvar:tx.score=+2"`,
		`SecRule REQUEST_HEADERS:User-Agent "@rx (?i)evil" "id:155,phase:1,pass,log,msg:'ua %{MATCHED_VAR}',logdata:'%{TX.0}',capture"`,
		`SecRule REQUEST_URI "@rx ^/(\w+)" "id:156,phase:1,pass,nolog,capture,setvar:tx.first=%{TX.1}"`,
		`SecRule ARGS "@within a b c 1 2" "id:157,phase:2,pass,nolog,t:trim,t:lowercase"`,
		`SecRule ARGS "@ipMatch 10.0.0.0/8" "id:158,phase:2,pass,nolog"`,
		`SecRule REQUEST_URI "@contains a" "id:159,phase:1,pass,nolog,ctl:ruleRemoveByTag=t1"`,
		`SecRule ARGS_NAMES "@validateByteRange 32-126" "id:160,phase:2,pass,nolog"`,
		`SecRule REQUEST_URI "@restpath /a/{sub}" "id:161,phase:1,pass,nolog"`,
		`SecRule ARGS "@detectSQLi" "id:162,phase:2,pass,nolog,t:urlDecode"`,
		`SecRule ARGS "@detectXSS" "id:163,phase:2,pass,nolog,t:htmlEntityDecode"`,
		`SecRule REQUEST_HEADERS "@pmFromDataset ds1" "id:164,phase:1,pass,nolog"`,
		`SecRule ARGS "@contains %{tx.first}" "id:165,phase:2,pass,nolog,setvar:tx.c165=%{MATCHED_VAR}"`,
		`SecRule ARGS_NAMES "@streq %{tx.0}" "id:166,phase:2,pass,nolog"`,
		`SecRule ARGS "@validateUrlEncoding" "id:167,phase:2,pass,nolog"`,
		`SecRule ARGS "@validateUtf8Encoding" "id:168,phase:2,pass,nolog"`,
		`SecRule &ARGS "@gt %{tx.cnt}" "id:169,phase:2,pass,nolog,setvar:tx.big=1"`,
		`SecRule REQUEST_URI "@strmatch tok" "id:170,phase:1,pass,log,msg:'uri %{REQUEST_URI} %{tx.first}',logdata:'%{MATCHED_VAR_NAME}=%{MATCHED_VAR}',setvar:tx.%{MATCHED_VAR_NAME}=+1"`,
		`SecRule ARGS "@rx ^(\w+)\s(\w+)$" "id:171,phase:2,pass,nolog,capture,t:urlDecode,setvar:tx.w1=%{TX.1},setvar:tx.w2=%{TX.2}"`,
		`SecRule REQUEST_COOKIES "@beginsWith %{tx.w1}" "id:172,phase:2,pass,nolog"`,
		`SecRule ARGS "@endsWith %{MATCHED_VAR}" "id:173,phase:2,pass,nolog,chain"` + "\n" + `  SecRule MATCHED_VARS "@within %{tx.w1} %{tx.w2} evil" "t:lowercase"`,
		// ENV is per transaction: what one request exported (setenv) is not there
		// when the next one starts (174 reads before 175 writes; 176 reads after)
		`SecRule ENV:PATH|ENV:HOME|ENV:GOFLAGS "@rx ." "id:177,phase:1,pass,log"`,
		`SecRule ENV:simmark "@rx ." "id:174,phase:1,pass,log,msg:'env %{MATCHED_VAR}'"` + "\n" + `SecRule REQUEST_URI "@contains tok" "id:175,phase:1,pass,nolog,setenv:simmark=%{REQUEST_URI}"` + "\n" + `SecRule ENV:simmark "@contains tok" "id:176,phase:2,pass,nolog"`,
	}
	var out []string
	for _, l := range pool {
		if t.Draw(3) == 0 {
			out = append(out, l)
		}
	}
	return out
}

func c06BuildPlain(directives string) (w coraza.WAF, err error) {
	defer func() {
		if r := recover(); r != nil {
			err = fmt.Errorf("PANIC in NewWAF: %v\n%s", r, shortStack())
		}
	}()
	return coraza.NewWAF(coraza.NewWAFConfig().WithDirectives(directives))
}

func c06Run(w *verifrt.World, tier Tier) *RunResult {
	res := &RunResult{}
	t := w.Work
	cfg := genConfig(t, &c06Opts)
	cfg.ReqLimit = 32 + t.Draw(100)
	cfg.ReqMem = 1 + t.Draw(cfg.ReqLimit)
	cfg.ReqAccess = true
	cfg.RespAccess = t.Draw(2) == 0
	cfg.UploadDir = simos.Root + "/upload"
	cfg.Lines = append(cfg.Lines, "SecDataset ds1 `\nevil\nfoo\n`")
	auditWriter := pick(t, []string{"", "Serial", "Concurrent", "Serial"})
	auditFormat := pick(t, []string{"JSON", "JSON", "Native"})
	if auditWriter != "" {
		cfg.Lines = append(cfg.Lines, "SecAuditEngine On", "SecAuditLogType "+auditWriter, "SecAuditLog "+simos.Root+"/audit/audit.log", "SecAuditLogStorageDir "+simos.Root+"/audit/data",
			"SecAuditLogParts ABHKZ", "SecAuditLogFormat "+auditFormat)
		// the audit engine / parts must stay as configured for the file check below
		cfg.Rules = filterRules(cfg.Rules, func(r *RuleSpec) bool {
			for _, e := range r.Extra {
				if strings.HasPrefix(e, "ctl:auditEngine") || strings.HasPrefix(e, "ctl:ruleEngine=Off") {
					return false
				}
			}
			return true
		})
	}
	text := cfg.Text() + strings.Join(c06Special(t), "\n") + "\n"
	sc := &c06Scenario{Config: text}
	ntx := 1 + t.Draw(4)
	ro := &reqOpts{Body: true, Response: true, Uploads: true, JSON: true, MaxArgs: 5}
	id := 0
	for i := 0; i < ntx; i++ {
		var scripts []*TxScript
		for j, n := 0, 1+t.Draw(3); j < n; j++ {
			id++
			scripts = append(scripts, genScript(t, ro, fmt.Sprintf("tx%d", id)))
		}
		sc.Tasks = append(sc.Tasks, scripts)
	}
	nb := t.Draw(3)
	for i := 0; i < nb; i++ {
		bc := genConfig(t, &c06Opts)
		bc.Lines = append(bc.Lines, "SecDataset ds1 `\nother\nwords\n`")
		// fresh transformation chains, so that builders really write to the
		// process-wide transformation-id table while other tasks read it
		extra := ""
		for k, n := 0, 1+t.Draw(3); k < n; k++ {
			extra += fmt.Sprintf("SecRule ARGS \"@rx a\" \"id:%d,phase:2,pass,nolog,t:vident%d,t:vident%d,t:vident%d\"\n", 171+k, t.Draw(identTotal), t.Draw(identTotal), t.Draw(identTotal))
		}
		sc.Builders = append(sc.Builders, bc.Text()+strings.Join(c06Special(t), "\n")+"\n"+extra)
	}
	sc.Churn = t.Draw(3)
	if ntx+nb+sc.Churn < 2 {
		sc.Churn = 2 - ntx - nb + sc.Churn
	}
	sc.Policy = []int{verifrt.PolicyRandom, verifrt.PolicyRandom, verifrt.PolicyPCT, verifrt.PolicyRoundRobin}[w.Sch.Draw(4)]
	sc.RunLen = []int{1, 2, 4, 8, 16, 32}[w.Sch.Draw(6)]
	res.Sample = sc
	js, _ := json.Marshal(sc)
	res.Hash = hash64(string(js))

	disk := simos.Disk()
	disk.MkdirAllQuiet(simos.Root + "/upload")
	disk.MkdirAllQuiet(simos.Root + "/audit")

	// ---- references: each script alone on a WAF built alone
	w.PoolPolicy = verifrt.PoolNew
	refs := map[string]*Outcome{}
	{
		h, err := buildWAF(text)
		if err != nil {
			if strings.HasPrefix(err.Error(), "PANIC") {
				res.fail("C06", "build-panic", "newwaf", "%v\n%s", err, text)
			}
			res.count("config_rejected", 1)
			return res
		}
		for _, scripts := range sc.Tasks {
			for _, s := range scripts {
				h.Concurrent = true
				refs[s.ID] = runTx(h, s)
			}
		}
		h.Close()
	}
	// ---- the shared WAF
	simos.ResetDisk()
	disk = simos.Disk()
	disk.MkdirAllQuiet(simos.Root + "/upload")
	disk.MkdirAllQuiet(simos.Root + "/audit")
	w.PoolPolicy = []int{verifrt.PoolLIFO, verifrt.PoolFIFO, verifrt.PoolRandom, verifrt.PoolDrop}[w.PoolT.Draw(4)]
	// a neighbour that was there first and stays: the same configuration with its
	// regex selectors moved to the other case-sensitivity class, so that whatever
	// the process caches under a selector's text already holds the neighbour's
	// value when the shared WAF is built
	if sib := siblingText(text); sib != text && w.Sch.Draw(2) == 0 {
		if nb, err := c06BuildPlain(sib); err == nil {
			res.count("neighbour_waf_open", 1)
			defer func() {
				if c, ok := nb.(closer); ok && !res.Tainted {
					c.Close()
				}
			}()
		}
	}
	shared, err := buildWAF(text)
	if err != nil {
		res.fail("C06", "build-differs", "newwaf", "second build of the same configuration failed: %v", err)
		return res
	}
	shared.Concurrent = true
	verifrt.LiveReset()
	// a twin WAF from the same configuration serves every second task (half of
	// the runs with the serial audit writer): two writers then append to one
	// audit log, and every record must still be there once and whole. (Not with
	// the concurrent writer: its index entry is three writes under the writer's
	// own lock, so entries of two writers interleave on the unchanged tree - a
	// weakness no claimed property states, noted in DESIGN section 7.)
	serve := func(ti int) *wafHandle { return shared }
	if auditWriter == "Serial" && w.Sch.Draw(2) == 0 {
		if twin, err := buildWAF(text); err == nil {
			twin.Concurrent = true
			res.count("twin_waf_sharing_audit_log", 1)
			defer func() {
				if !res.Tainted {
					twin.Close()
				}
			}()
			serve = func(ti int) *wafHandle {
				if ti%2 == 1 {
					return twin
				}
				return shared
			}
		}
	}

	type txResult struct {
		out  *Outcome
		excl string
	}
	results := make([][]txResult, len(sc.Tasks))
	builderErr := make([]string, len(sc.Builders))
	var fns []func()
	for ti, scripts := range sc.Tasks {
		ti, scripts := ti, scripts
		results[ti] = make([]txResult, len(scripts))
		fns = append(fns, func() {
			for si, s := range scripts {
				o := runTx(serve(ti), s)
				results[ti][si].out = o
				results[ti][si].excl = o.Excl
			}
		})
	}
	for bi, b := range sc.Builders {
		bi, b := bi, b
		fns = append(fns, func() {
			bw, err := c06BuildPlain(b)
			if err != nil {
				builderErr[bi] = err.Error()
				return
			}
			if c, ok := bw.(closer); ok {
				c.Close()
			}
		})
	}
	for ci := 0; ci < sc.Churn; ci++ {
		fns = append(fns, func() {
			for k := 0; k < 3; k++ {
				tx := shared.WAF.NewTransaction()
				tx.ProcessURI("/churn?a=1", "GET", "HTTP/1.1")
				tx.ProcessRequestHeaders()
				tx.ProcessLogging()
				tx.Close()
			}
		})
	}
	s := verifrt.NewSched(w.Sch, sc.Policy)
	s.RunLen = sc.RunLen
	s.PCTDepth = 1 + w.Sch.Draw(3)
	tasks := s.Run(fns)
	res.Interleave = s.TraceHash
	res.Pairs = s.Pairs
	res.count("steps", int64(s.Steps))
	res.count("context_switches", int64(s.Switches))
	res.count("blocked_waits", int64(s.Blocks))
	res.count("pool_reuse", int64(w.PoolReuse))
	res.Nontrivial = s.Switches >= 1 && len(fns) >= 2
	sched := fmt.Sprintf("policy=%d runlen=%d switches=%d first switches=%v", sc.Policy, sc.RunLen, s.Switches, firstN(s.Trace, 24))
	if s.Deadlock {
		res.Tainted = true
		res.fail("C06", "deadlock", "all-tasks-blocked", "every live task is blocked (%s)\nconfiguration:\n%s", sched, text)
	}
	if s.Overrun {
		res.Tainted = true
		res.fail("C06", "livelock", "step-budget", "step budget of %d exceeded (%s)", s.MaxSteps, sched)
	}
	for _, tk := range tasks {
		if tk.Panic != nil {
			res.Tainted = true
			res.fail("C06", "panic", panicSite(tk.Stack), "task %d panicked: %v\n%s\n(%s)\nconfiguration:\n%s", tk.ID, tk.Panic, clip(tk.Stack, 2500), sched, text)
		}
	}
	if len(res.Viol) > 0 {
		return res
	}
	for ti, scripts := range sc.Tasks {
		for si, sp := range scripts {
			r := results[ti][si]
			if r.excl != "" {
				res.fail("C06", "pool-exclusivity", "same-object-live-twice", "%s (%s)", r.excl, sched)
				continue
			}
			if r.out == nil {
				continue
			}
			if r.out.Panic != "" {
				res.fail("C06", "panic", panicSite(r.out.Panic), "transaction %s panicked in %s: %s (%s)\nconfiguration:\n%s", sp.ID, r.out.PanicStep, r.out.Panic, sched, text)
				continue
			}
			if clause, detail := c05Diff(refs[sp.ID], r.out); clause != "" {
				if multiphaseBuild && !res.Tainted {
					// multiphase build: is the difference the one between the first
					// transaction a WAF serves and every later one?  The same script
					// alone, twice on a fresh WAF: if the two outcomes differ and the
					// concurrent one equals either, no interleaving is involved.
					w.PoolPolicy = verifrt.PoolNew
					if hh, err := buildWAF(text); err == nil {
						hh.Concurrent = true
						o1 := runTx(hh, sp)
						o2 := runTx(hh, sp)
						hh.Close()
						c12, _ := c05Diff(o1, o2)
						ca, _ := c05Diff(o1, r.out)
						cb, _ := c05Diff(o2, r.out)
						if c12 != "" && (ca == "" || cb == "") {
							res.fail("C06", "first-transaction-differs", "multiphase-build", "transaction %s alone on a fresh WAF gives one outcome as the first transaction the WAF serves and another as a later one (no concurrency involved); the concurrent outcome equals one of them\nfirst: %s\nlater: %s\nconfiguration:\n%s", sp.ID, jsonOf(o1), jsonOf(o2), text)
							continue
						}
					}
				}
				res.fail("C06", "outcome-differs-from-alone", clause, "transaction %s: %s\nalone:      %s\nconcurrent: %s\n(%s)\nconfiguration:\n%s", sp.ID, detail, jsonOf(refs[sp.ID]), jsonOf(r.out), sched, text)
			}
		}
	}
	for bi := range sc.Builders {
		if builderErr[bi] == "" {
			continue
		}
		// does it build alone?
		alone := false
		if bw, err := c06BuildPlain(sc.Builders[bi]); err == nil {
			alone = true
			if c, ok := bw.(closer); ok {
				c.Close()
			}
		}
		if alone {
			cl := "build-fails-concurrently"
			if strings.HasPrefix(builderErr[bi], "PANIC") {
				cl = "build-panic"
			}
			res.fail("C06", cl, "builder", "a WAF that builds alone failed while other tasks were running: %s (%s)", clip(builderErr[bi], 1500), sched)
		}
	}
	shared.Close()
	if auditWriter != "" && len(res.Viol) == 0 {
		// every transaction that ran ProcessLogging must be in the shared audit
		// output exactly once, whole, with the concurrent writer's index entries
		// not interleaved
		var ids []string
		for _, scripts := range sc.Tasks {
			for _, sp := range scripts {
				if !sp.NoLogging && sp.StopAfter < 0 {
					ids = append(ids, sp.ID)
				}
			}
		}
		auditFilesCheck(res, "C06", auditWriter, auditFormat, simos.Disk(), ids, nil, "("+sched+")")
	}
	return res
}

func filterRules(rs []RuleSpec, keep func(r *RuleSpec) bool) []RuleSpec {
	var out []RuleSpec
	for i := range rs {
		if keep(&rs[i]) {
			out = append(out, rs[i])
		}
	}
	return out
}

func firstN(tr []verifrt.SwitchRec, n int) []verifrt.SwitchRec {
	if len(tr) > n {
		return tr[:n]
	}
	return tr
}

func init() {
	register(&Check{
		ID: "C06", Level: "exploration", NeedsRace: true, Isolated: true, Run: c06Run,
		Runs:       [2]int{2500, 200000},
		MaxSeconds: [2]int{120, 1700},
		Rule: "one run = 2-8 simulated tasks under the seeded scheduler (random walk with run length 1-32, PCT with 1-3 priority change points, round-robin): 1-4 transaction tasks running 1-3 generated transactions each on one shared WAF (bodies spilling to the simulated disk, uploads, ctl:* incl. per-transaction target removal on rules with configured exclusions, captures, macros, shared serial audit writer), " +
			"0-2 builder tasks constructing and closing WAFs that share patterns / data set names with it (pattern cache, singleflight, transformation-id table), 0-2 churn tasks creating and closing transactions; pool policy LIFO / FIFO / random / drop. Yield points: every sync / atomic operation, every statement of memoize, singleflight, pool, audit writers, RandomString, transformationID, newTransaction, Close, BodyBuffer, every rule iteration and API entry. " +
			"Oracles: race detector silent, no panic, no deadlock, pool exclusivity, each transaction's outcome equals its outcome alone on a WAF built alone. non-trivial = at least one context switch with >= 2 tasks; distinct = scenario hash; interleavings counted by hash of the switch sequence",
		Assumptions: []string{"the race detector sees the program's own synchronisation only: scheduler hand-over is invisible to it (selftest race-visible / mutex-silent)",
			"simulated disk operations are serialised by a real mutex and so add happens-before edges between tasks at disk operations (can hide, never invent, a race)",
			"default build tags; the multiphase build is run by the thorough tier"},
		Real:      []string{"whole engine, memoize + instrumented copy of x/sync/singleflight, internal/sync pool plumbing, serial audit writer with real log.Logger, Go runtime, race detector"},
		Stub:      []string{"goroutine scheduling decisions", "sync.Pool policy", "file system", "clock", "random source"},
		Unchecked: []string{"order of records of different transactions in shared outputs", "random ids", "stopwatch"},
		MustHit:   []string{"context_switches", "blocked_waits", "pool_reuse"},
	})
}
