package main

import (
	"encoding/json"
	"fmt"
	"os"
	"os/exec"
	"strings"
	"testing/fstest"

	coraza "github.com/corazawaf/coraza/v3"
	"github.com/corazawaf/coraza/v3/internal/memoize"
	"github.com/corazawaf/coraza/v3/verifrt"
)

// C13 - a WAF follows its own configuration only; pattern caching is invisible.
//
// Simulated: histories of WAF build / close / probe over the process-wide
// pattern cache, sequential and interleaved under the scheduler, from a pool of
// configurations that reuse the same strings in different roles.  Oracle: the
// golden outcome of every (configuration, request) computed by a second binary
// built from the same tree with -tags coraza.no_memoize (no cache at all).

type c13Cfg struct {
	Name  string            `json:"name"`
	Text  string            `json:"text"`
	Files map[string]string `json:"files,omitempty"`
}

var c13Strings = []string{"abc", "a.c", "evil", "x1", "Xb.d", "a(b", `\/abc\/{id}`, "CAF\u00c9", "caf\u00e9"}

// c13Alias: configurations of these strings take part in the same runs (the
// second is what a cache-key slip in another role of the first would collide with)
var c13Alias = map[string]string{"abc": `\/abc\/{id}`, `\/abc\/{id}`: "abc", "CAF\u00c9": "caf\u00e9", "caf\u00e9": "CAF\u00c9"}

type c13Role struct {
	name     string
	variants int
	gen      func(s string, v int) (text string, files map[string]string)
}

var c13Roles = []c13Role{
	{"pm", 1, func(s string, v int) (string, map[string]string) {
		return fmt.Sprintf("SecRule ARGS \"@pm %s\" \"id:1,phase:1,deny,status:401\"\n", s), nil
	}},
	{"pmds", 3, func(s string, v int) (string, map[string]string) {
		// variant 2: ONE entry that is a phrase with a space - the same text as
		// the two-word list of the "pmname" role
		content := []string{"abc\nzzz\nevil", "qqq\nx1", s + " zzz"}[v]
		return fmt.Sprintf("SecDataset %s `\n%s\n`\nSecRule ARGS \"@pmFromDataset %s\" \"id:2,phase:1,deny,status:402\"\n", s, content, s), nil
	}},
	{"pmfile", 3, func(s string, v int) (string, map[string]string) {
		content := []string{"abc\nzzz\nevil\n", "qqq\nx1\n", s + " zzz\n"}[v]
		return fmt.Sprintf("SecRule ARGS \"@pmFromFile %s\" \"id:3,phase:1,deny,status:403\"\n", s), map[string]string{s: content}
	}},
	{"rxkey", 1, func(s string, v int) (string, map[string]string) {
		return fmt.Sprintf("SecRule ARGS:/%s/ \"@rx .\" \"id:4,phase:1,deny,status:404\"\n", s), nil
	}},
	{"ctlrx", 1, func(s string, v int) (string, map[string]string) {
		return fmt.Sprintf("SecAction \"id:50,phase:1,pass,nolog,ctl:ruleRemoveTargetById=51;ARGS:/%s/\"\nSecRule ARGS \"@rx .\" \"id:51,phase:1,deny,status:405\"\n", s), nil
	}},
	{"restpath", 1, func(s string, v int) (string, map[string]string) {
		return fmt.Sprintf("SecRule REQUEST_FILENAME \"@restpath /%s/{id}\" \"id:6,phase:1,deny,status:406\"\n", s), nil
	}},
	{"restplain", 1, func(s string, v int) (string, map[string]string) {
		// a template without slash and placeholder expands to itself: the same key text as the regex roles
		return fmt.Sprintf("SecRule REQUEST_BASENAME \"@restpath %s\" \"id:14,phase:1,deny,status:414\"\n", s), nil
	}},
	{"schema", 3, func(s string, v int) (string, map[string]string) {
		// JSON schemas under one file name with differing contents; two of them
		// declare the same $id (a compiler shared between WAFs would confuse them)
		content := []string{
			`{"$id":"http://sim/schema","type":"object","required":["a"]}`,
			`{"$id":"http://sim/schema","type":"object","required":["b"]}`,
			`{"type":"object","required":["k"]}`,
		}[v]
		return fmt.Sprintf("SecRequestBodyAccess On\nSecRule REQUEST_HEADERS:Content-Type \"@contains json\" \"id:16,phase:1,pass,nolog,ctl:requestBodyProcessor=JSON\"\nSecRule REQUEST_BODY \"@validateSchema %s.json\" \"id:15,phase:2,deny,status:415\"\n", s), map[string]string{s + ".json": content}
	}},
	{"pmlong", 2, func(s string, v int) (string, map[string]string) {
		// two phrase lists of equal length that agree on their first seventy
		// bytes: whatever abbreviates a cache key must still tell them apart
		return fmt.Sprintf("SecRule ARGS \"@pm %s common-prefix-of-a-long-phrase-list-0123456789-abcdefghijklmnopqrstuvwxyz %s\" \"id:18,phase:1,deny,status:418\"\n", s, []string{"zzz", "qqq"}[v]), nil
	}},
	{"tchain", 2, func(s string, v int) (string, map[string]string) {
		// sibling transformation chains nobody has registered before the run, in
		// opposite order in the two variants: concurrent builders intern them at
		// the same time, and every WAF uses all of them on one argument
		rules := []string{
			"SecRule ARGS:k \"@rx .\" \"id:19,phase:1,pass,log,t:none,t:urlDecode,t:removeNulls,t:trim,t:lowercase\"\n",
			"SecRule ARGS:k \"@rx .\" \"id:20,phase:1,pass,log,t:none,t:urlDecode,t:removeNulls,t:trim,t:uppercase\"\n",
			"SecRule ARGS:k \"@rx .\" \"id:21,phase:1,pass,log,t:none,t:urlDecode,t:removeNulls,t:trimLeft,t:hexEncode\"\n",
			"SecRule ARGS:k \"@rx .\" \"id:22,phase:1,pass,log,t:none,t:urlDecode,t:removeNulls,t:trimLeft,t:base64Encode\"\n",
		}
		if v == 1 {
			rules[0], rules[1], rules[2], rules[3] = rules[3], rules[2], rules[1], rules[0]
		}
		return strings.Join(rules, "") + fmt.Sprintf("SecRule ARGS:k \"@streq %s\" \"id:23,phase:1,deny,status:421,t:none,t:urlDecode,t:removeNulls,t:lowercase\"\n", s), nil
	}},
	{"pmws", 3, func(s string, v int) (string, map[string]string) {
		// phrase lists that differ only in their white space: one space (two
		// words), two spaces (contains the empty word), a tab (one phrase)
		sep := []string{" ", "  ", "\t"}[v]
		return fmt.Sprintf("SecRule ARGS \"@pm %s%szzz\" \"id:24,phase:1,deny,status:424\"\n", s, sep), nil
	}},
	{"dsuse", 1, func(s string, v int) (string, map[string]string) {
		// uses a data set it does not define: must not build, whoever defined that name before
		return fmt.Sprintf("SecRule ARGS \"@pmFromDataset %s\" \"id:25,phase:1,deny,status:425\"\n", s), nil
	}},
	{"nid", 1, func(s string, v int) (string, map[string]string) {
		return fmt.Sprintf("SecRule ARGS \"@validateNid cl %s\" \"id:7,phase:1,deny,status:407\"\n", s), nil
	}},
	{"relstatus", 1, func(s string, v int) (string, map[string]string) {
		return fmt.Sprintf("SecAuditEngine RelevantOnly\nSecAuditLogType verifrec\nSecAuditLog /simfs/a.log\nSecAuditLogParts ABKZ\nSecAuditLogFormat JSON\nSecAuditLogRelevantStatus \"%s\"\nSecAction \"id:8,phase:1,deny,status:408,log,auditlog\"\n", s), nil
	}},
	{"rxpf", 2, func(s string, v int) (string, map[string]string) {
		return fmt.Sprintf("SecRxPreFilter %s\nSecRule ARGS \"@rx %s\" \"id:9,phase:1,deny,status:409\"\n", []string{"On", "Off"}[v], s), nil
	}},
	{"hdrrx", 1, func(s string, v int) (string, map[string]string) {
		// regex key on a case-insensitive collection: the expression is lower-cased there, not for ARGS
		return fmt.Sprintf("SecRule REQUEST_HEADERS:/%s/ \"@rx .\" \"id:12,phase:1,deny,status:412\"\n", s), nil
	}},
	{"neghdrrx", 1, func(s string, v int) (string, map[string]string) {
		return fmt.Sprintf("SecRule REQUEST_HEADERS|!REQUEST_HEADERS:/%s/|!REQUEST_HEADERS:host \"@rx .\" \"id:13,phase:1,deny,status:413\"\n", s), nil
	}},
	{"negrx", 1, func(s string, v int) (string, map[string]string) {
		return fmt.Sprintf("SecRule ARGS|!ARGS:/%s/ \"@rx .\" \"id:10,phase:1,deny,status:410\"\n", s), nil
	}},
	{"pmname", 1, func(s string, v int) (string, map[string]string) {
		// a phrase list that is literally the other roles' key strings
		return fmt.Sprintf("SecRule ARGS_NAMES \"@pm %s zzz\" \"id:11,phase:1,deny,status:411\"\n", s), nil
	}},
}

var c13Pool []c13Cfg

func c13BuildPool() {
	if c13Pool != nil {
		return
	}
	type inst struct {
		name  string
		text  string
		files map[string]string
	}
	for _, s := range c13Strings {
		var insts []inst
		nonASCII := strings.IndexFunc(s, func(r rune) bool { return r > 127 }) >= 0
		for _, r := range c13Roles {
			if nonASCII && !strings.HasPrefix(r.name, "pm") && r.name != "rxkey" && r.name != "negrx" {
				// the strings that differ only in the case of a non-ASCII letter are
				// there for the phrase-list roles (keys folded differently from the
				// matcher) and the plain regex keys; keeps the pool small
				continue
			}
			for v := 0; v < r.variants; v++ {
				t, f := r.gen(s, v)
				insts = append(insts, inst{fmt.Sprintf("%s%d(%s)", r.name, v, s), t, f})
			}
		}
		for _, a := range insts {
			c13Pool = append(c13Pool, c13Cfg{Name: a.name, Text: "SecRuleEngine On\n" + a.text, Files: a.files})
		}
		for i, a := range insts {
			for j, b := range insts {
				if i >= j || strings.SplitN(a.name, "(", 2)[0][:3] == strings.SplitN(b.name, "(", 2)[0][:3] {
					continue
				}
				if strings.HasPrefix(a.name, "schema") || strings.HasPrefix(b.name, "schema") {
					continue // keyed by content digest: no other role can collide with it
				}
				if strings.HasPrefix(a.name, "pmws") || strings.HasPrefix(b.name, "pmws") || strings.HasPrefix(a.name, "dsuse") || strings.HasPrefix(b.name, "dsuse") {
					continue
				}
				if strings.HasPrefix(a.name, "pmlong") || strings.HasPrefix(b.name, "pmlong") || strings.HasPrefix(a.name, "tchain") || strings.HasPrefix(b.name, "tchain") {
					continue // these two roles meet their own variants (same string), not other roles
				}
				files := map[string]string{}
				for k, v := range a.files {
					files[k] = v
				}
				conflict := false
				for k, v := range b.files {
					if o, ok := files[k]; ok && o != v {
						conflict = true
					}
					files[k] = v
				}
				if conflict || (strings.Contains(a.text, "SecDataset") && strings.Contains(b.text, "SecDataset")) {
					continue
				}
				c13Pool = append(c13Pool, c13Cfg{Name: a.name + "+" + b.name, Text: "SecRuleEngine On\n" + a.text + b.text, Files: files})
			}
		}
	}
}

func c13Requests() []*TxScript {
	mk := func(id, uri string) *TxScript {
		return &TxScript{ID: id, Method: "GET", URI: uri, Headers: []Header{{"Host", "h"}}, RespStatus: 200, StopAfter: -1}
	}
	mkj := func(id, body string) *TxScript {
		s := mk(id, "/api")
		s.Method, s.BodyKind, s.ContentType, s.Body = "POST", "json", "application/json", []byte(body)
		return s
	}
	mkh := func(id, uri, hk, hv string) *TxScript {
		s := mk(id, uri)
		s.Headers = append(s.Headers, Header{hk, hv})
		return s
	}
	return []*TxScript{
		mk("q0", "/?abc=1"), mk("q1", "/?k=abc"), mk("q2", "/?k=zzz&a.c=5"), mk("q3", "/abc/77?k=qqq"),
		mk("q4", "/?k=evil&evil=x1"), mk("q5", "/?x1=a1c&k=axc"), mk("q6", "/x1/9?axc=408"), mk("q7", "/?k=12345678-5"),
		mkj("q12", `{"a":1}`), mkj("q13", `{"b":1,"k":2}`), mk("q14", "/?k=caf%C3%A9+zzz&caf%C3%A9=1"), mk("q15", "/?k=CAF%C3%89+zzz&CAF%C3%89=1"),
		mkh("q8", "/?Xb1d=1&k=xb2d", "Xb3d", "v"), mkh("q9", "/Xb.d/4?xbzd=Xb.d", "xbyd", "Xb9d"), mkh("q10", "/?k=1", "abc", "evil"), mk("q11", "/abc/5?/abc/{id}=1&k=/abc/7"),
	}
}

// c13Salt: set at the start of every run from its seed (see c13Build)
var c13Salt uint64

func c13Build(c *c13Cfg) (h *wafHandle, class string, detail string) {
	h = &wafHandle{Concurrent: true}
	defer func() {
		if r := recover(); r != nil {
			h, class, detail = nil, "PANIC", fmt.Sprintf("%v\n%s", r, shortStack())
		}
	}()
	// chains that start with t:none get two run-specific identity steps instead:
	// the same behaviour (the golden table stays valid), but a chain name the
	// process has not interned before this run
	text := strings.ReplaceAll(c.Text, "t:none,", fmt.Sprintf("t:vident%d,t:vident%d,", c13Salt%identTotal, (c13Salt/identTotal)%identTotal))
	cfg := coraza.NewWAFConfig().WithDirectives(text)
	if len(c.Files) > 0 {
		m := fstest.MapFS{}
		for k, v := range c.Files {
			m[k] = &fstest.MapFile{Data: []byte(v)}
		}
		cfg = coraza.NewWAFConfig().WithRootFS(m).WithDirectives(text)
	}
	w, err := coraza.NewWAF(cfg)
	if err != nil {
		return nil, "ERR", err.Error()
	}
	h.WAF = w
	return h, "", ""
}

type c13Golden struct {
	Class  string     `json:"class"`
	Detail string     `json:"detail,omitempty"`
	Probes []*Outcome `json:"probes,omitempty"`
}

// goldenMain prints the golden table (run in the no_memoize binary).
func c13GoldenMain() {
	c13BuildPool()
	verifrt.Install(verifrt.NewWorld(1))
	reqs := c13Requests()
	table := make([]c13Golden, len(c13Pool))
	for i := range c13Pool {
		h, class, detail := c13Build(&c13Pool[i])
		table[i] = c13Golden{Class: class, Detail: clip(detail, 300)}
		if h == nil {
			continue
		}
		for _, q := range reqs {
			table[i].Probes = append(table[i].Probes, runTx(h, q))
		}
		h.Close()
	}
	b, _ := json.Marshal(table)
	os.Stdout.Write(b)
}

var c13Table []c13Golden

func c13LoadTable() error {
	if c13Table != nil {
		return nil
	}
	p := os.Getenv("VSIM_GOLDEN_TABLE")
	if p == "" {
		return fmt.Errorf("VSIM_GOLDEN_TABLE not set")
	}
	b, err := os.ReadFile(p)
	if err != nil {
		return err
	}
	return json.Unmarshal(b, &c13Table)
}

func c13Prepare(scratch string) error {
	g := os.Getenv("VSIM_GOLDEN")
	if g == "" {
		return fmt.Errorf("VSIM_GOLDEN (no_memoize harness binary) not set")
	}
	out, err := exec.Command(g, "golden", "C13").Output()
	if err != nil {
		return fmt.Errorf("golden binary failed: %v", err)
	}
	p := scratch + "/c13-golden.json"
	if err := os.WriteFile(p, out, 0o644); err != nil {
		return err
	}
	os.Setenv("VSIM_GOLDEN_TABLE", p)
	return nil
}

type c13Op struct {
	Kind string `json:"kind"` // build close probe
	Cfg  int    `json:"cfg,omitempty"`
	Slot int    `json:"slot"`
	Req  int    `json:"req,omitempty"`
}

type c13Scenario struct {
	Tasks    [][]c13Op `json:"tasks"`
	CfgNames []string  `json:"cfg_names"`
	Direct   int       `json:"direct_memoize_tasks"`
}

func c13GenOps(t *verifrt.Tape, related []int, n int) []c13Op {
	var ops []c13Op
	live := map[int]bool{}
	for i := 0; i < n; i++ {
		k := t.Draw(6)
		switch {
		case k <= 1 || len(live) == 0:
			slot := t.Draw(4)
			if live[slot] {
				ops = append(ops, c13Op{Kind: "close", Slot: slot})
			}
			ops = append(ops, c13Op{Kind: "build", Slot: slot, Cfg: related[t.Draw(len(related))]})
			live[slot] = true
		case k == 2:
			for s := range []int{0, 1, 2, 3} {
				if live[s] {
					ops = append(ops, c13Op{Kind: "close", Slot: s})
					delete(live, s)
					break
				}
			}
		default:
			for s := range []int{0, 1, 2, 3} {
				if live[(s+k)%4] {
					ops = append(ops, c13Op{Kind: "probe", Slot: (s + k) % 4, Req: t.Draw(len(c13Requests()))})
					break
				}
			}
		}
	}
	return ops
}

func c13Run(w *verifrt.World, tier Tier) *RunResult {
	res := &RunResult{}
	c13BuildPool()
	if err := c13LoadTable(); err != nil {
		res.fail("C13", "SIMULATOR-SELF-RACE", "golden-table", "cannot load golden table: %v", err)
		return res
	}
	if len(c13Table) != len(c13Pool) {
		res.fail("C13", "SIMULATOR-SELF-RACE", "golden-table", "golden table has %d entries, pool has %d", len(c13Table), len(c13Pool))
		return res
	}
	t := w.Work
	c13Salt = w.Seed
	// configurations of one run share a string, so that keys collide
	s := c13Strings[t.Draw(len(c13Strings))]
	var related []int
	for i, c := range c13Pool {
		if strings.Contains(c.Name, "("+s+")") || (c13Alias[s] != "" && strings.Contains(c.Name, "("+c13Alias[s]+")") && !strings.Contains(c.Name, "+")) {
			related = append(related, i)
		}
	}
	// family mode (a quarter of the runs): only the variants of one role that has
	// several (the same name with different contents, sibling phrase lists or
	// chains) - the histories then build exactly the configurations that compete
	// for one cache entry or one in-flight compilation
	if t.Draw(4) == 0 {
		fam := pick(t, []string{"pmds", "pmfile", "schema", "rxpf", "pmlong", "tchain", "pmlong", "tchain", "pmws", "pmws", "ds"})
		var only []int
		for _, i := range related {
			n := c13Pool[i].Name
			if fam == "ds" && (strings.HasPrefix(n, "dsuse") || strings.HasPrefix(n, "pmds")) && !strings.Contains(n, "+") {
				only = append(only, i)
				continue
			}
			if strings.HasPrefix(c13Pool[i].Name, fam) && !strings.Contains(c13Pool[i].Name, "+") {
				only = append(only, i)
			}
		}
		if len(only) >= 2 {
			related = only
			res.count("family_mode_runs", 1)
		}
	}
	ntasks := 1
	if t.Draw(2) == 1 {
		ntasks = 2 + t.Draw(3)
	}
	sc := &c13Scenario{}
	for i := 0; i < ntasks; i++ {
		sc.Tasks = append(sc.Tasks, c13GenOps(t, related, 3+t.Draw(8)))
	}
	if ntasks > 1 {
		sc.Direct = t.Draw(2)
	}
	used := map[int]bool{}
	for _, ops := range sc.Tasks {
		for _, o := range ops {
			if o.Kind == "build" && !used[o.Cfg] {
				used[o.Cfg] = true
				sc.CfgNames = append(sc.CfgNames, c13Pool[o.Cfg].Name)
			}
		}
	}
	res.Sample = sc
	js, _ := json.Marshal(sc)
	res.Hash = hash64(string(js))
	reqs := c13Requests()

	type finding struct{ clause, fp, detail string }
	findings := make([][]finding, len(sc.Tasks)+sc.Direct)
	pnotes := make([][]runNote, len(sc.Tasks)) // per task: tasks must not share a slice (the hand-over is invisible to the race detector)
	runOps := func(ti int, ops []c13Op) {
		slots := map[int]*wafHandle{}
		slotCfg := map[int]int{}
		add := func(clause, fp, format string, a ...any) {
			findings[ti] = append(findings[ti], finding{clause, fp, fmt.Sprintf(format, a...)})
		}
		for oi, o := range ops {
			switch o.Kind {
			case "build":
				h, class, detail := c13Build(&c13Pool[o.Cfg])
				g := c13Table[o.Cfg]
				roles := strings.NewReplacer("(abc)", "", "(a.c)", "", "(evil)", "", "(x1)", "", "(Xb.d)", "", "(a(b)", "", `(\/abc\/{id})`, "", "(CAF\u00c9)", "", "(caf\u00e9)", "").Replace(c13Pool[o.Cfg].Name)
				switch {
				case class == "PANIC":
					add("build-panic", roles, "task %d op %d: building %s panicked: %s\nconfiguration:\n%s", ti, oi, c13Pool[o.Cfg].Name, detail, c13Pool[o.Cfg].Text)
				case class == "ERR" && g.Class == "":
					add("build-fails", roles, "task %d op %d: %s builds with the cache compiled out but failed here: %s\nconfiguration:\n%s", ti, oi, c13Pool[o.Cfg].Name, detail, c13Pool[o.Cfg].Text)
				case class == "" && g.Class != "":
					add("build-succeeds", roles, "task %d op %d: %s is rejected with the cache compiled out (%s) but was accepted here", ti, oi, c13Pool[o.Cfg].Name, g.Detail)
				}
				if h != nil {
					slots[o.Slot] = h
					slotCfg[o.Slot] = o.Cfg
				} else {
					delete(slots, o.Slot)
				}
			case "close":
				if h := slots[o.Slot]; h != nil {
					h.Close()
					delete(slots, o.Slot)
				}
			case "probe":
				h := slots[o.Slot]
				if h == nil {
					continue
				}
				ci := slotCfg[o.Slot]
				got := runTx(h, reqs[o.Req])
				pnotes[ti] = append(pnotes[ti], runNote{fmt.Sprintf("probe:task%d-op%d", ti, oi), fullJSON(got)})
				g := c13Table[ci]
				if g.Class != "" || o.Req >= len(g.Probes) {
					continue
				}
				want := g.Probes[o.Req]
				if got.Panic != "" {
					add("probe-panic", panicSite(got.Panic), "task %d op %d: probe %s on %s panicked: %s", ti, oi, reqs[o.Req].URI, c13Pool[ci].Name, got.Panic)
					continue
				}
				if clause, detail := c05Diff(want, got); clause != "" {
					roles := strings.NewReplacer("(abc)", "", "(a.c)", "", "(evil)", "", "(x1)", "", "(Xb.d)", "", "(a(b)", "", `(\/abc\/{id})`, "", "(CAF\u00c9)", "", "(caf\u00e9)", "").Replace(c13Pool[ci].Name)
					add("probe-differs", roles+"/"+clause, "task %d op %d: probe %s on %s: %s\nwith the cache compiled out: %s\nhere:                        %s\nconfiguration:\n%s", ti, oi, reqs[o.Req].URI, c13Pool[ci].Name, detail, jsonOf(want), jsonOf(got), c13Pool[ci].Text)
				}
			}
		}
		for i := 0; i < 4; i++ { // fixed order: a Go map range here would make the schedule irreproducible
			if h := slots[i]; h != nil {
				h.Close()
			}
		}
	}
	direct := func(ti int, id uint64) {
		// harness-level users of the cache: the value returned for a key must
		// have been produced for that key
		type tagged struct{ key string }
		m := memoize.NewMemoizer(id)
		for i := 0; i < 6; i++ {
			key := fmt.Sprintf("direct-%s-%d", s, i%3)
			v, err := m.Do(key, func() (any, error) { return &tagged{key}, nil })
			if err != nil {
				findings[ti] = append(findings[ti], finding{"memoize-error", "direct", fmt.Sprintf("Do(%q) returned error %v for a function that cannot fail", key, err)})
			} else if tv, ok := v.(*tagged); !ok || tv.key != key {
				findings[ti] = append(findings[ti], finding{"memoize-attribution", "direct", fmt.Sprintf("Do(%q) returned a value produced for %v", key, v)})
			}
			if i == 3 {
				memoize.Release(id)
			}
		}
		memoize.Release(id)
	}

	if len(sc.Tasks) == 1 {
		runOps(0, sc.Tasks[0])
		res.count("sequential_histories", 1)
	} else {
		var fns []func()
		for ti := range sc.Tasks {
			ti := ti
			fns = append(fns, func() { runOps(ti, sc.Tasks[ti]) })
		}
		for d := 0; d < sc.Direct; d++ {
			ti := len(sc.Tasks) + d
			fns = append(fns, func() { direct(ti, uint64(900000+ti)) })
		}
		sch := verifrt.NewSched(w.Sch, []int{verifrt.PolicyRandom, verifrt.PolicyRandom, verifrt.PolicyPCT}[w.Sch.Draw(3)])
		sch.RunLen = []int{1, 2, 4, 8, 16}[w.Sch.Draw(5)]
		tasks := sch.Run(fns)
		res.Interleave = sch.TraceHash
		res.Pairs = sch.Pairs
		res.count("interleaved_histories", 1)
		res.count("context_switches", int64(sch.Switches))
		res.count("blocked_waits", int64(sch.Blocks))
		if sch.Deadlock {
			res.Tainted = true
			res.fail("C13", "deadlock", "all-tasks-blocked", "every live task is blocked; first switches %v", firstN(sch.Trace, 24))
		}
		if sch.Overrun {
			res.Tainted = true
			res.fail("C13", "livelock", "step-budget", "step budget exceeded")
		}
		for _, tk := range tasks {
			if tk.Panic != nil {
				res.Tainted = true
				res.fail("C13", "panic", panicSite(tk.Stack), "task %d panicked: %v\n%s", tk.ID, tk.Panic, clip(tk.Stack, 2000))
			}
		}
	}
	for _, fs := range findings {
		for _, f := range fs {
			res.fail("C13", f.clause, f.fp, "%s", f.detail)
		}
	}
	for _, ns := range pnotes {
		res.Notes = append(res.Notes, ns...)
	}
	nb := 0
	for _, ops := range sc.Tasks {
		for _, o := range ops {
			if o.Kind == "build" {
				nb++
			}
		}
	}
	res.Nontrivial = nb >= 2
	res.count("builds", int64(nb))
	return res
}

func fullJSON(v any) string {
	b, _ := json.Marshal(v)
	return string(b)
}

func init() {
	register(&Check{
		ID: "C13", Level: "exploration", NeedsRace: true, Isolated: true, HistoryProbe: true, Run: c13Run, Prepare: c13Prepare,
		Runs:       [2]int{6000, 400000},
		MaxSeconds: [2]int{120, 1700},
		Rule: "one run = a history of build / close / probe operations (<= 10 per task, <= 4 live WAFs per task) over a pool of ~500 configurations that put the same string into different cache-using roles (@pm phrase list, @pmFromDataset name with differing contents, @pmFromFile name under differing root file systems, ARGS:/S/ regex key, negated regex key, ctl regex key, @restpath, @validateNid, SecAuditLogRelevantStatus, @rx with SecRxPreFilter On/Off, and every pair of them); " +
			"the pattern cache is emptied at run start; half of the runs are sequential, half run 2-4 tasks (plus direct cache users with Release) interleaved by the seeded scheduler under the race detector. Oracle: a build panics never and fails exactly when it fails in the golden no_memoize binary built from the same tree; every probe outcome equals the golden outcome; values returned by the cache were produced for the requested key; no race / deadlock. " +
			"non-trivial = at least two builds in the history; distinct = scenario hash",
		Assumptions: []string{"whether a value came from the cache or was recompiled is not observed (a stale Range callback may legally delete a fresh entry)", "error messages of failing builds are not compared, only fail / not fail"},
		Real:        []string{"internal/memoize (sync.Map, instrumented singleflight copy), every cache call site in operators / rule / ctl / directives, WAF.Close -> Release", "golden: same tree built with -tags coraza.no_memoize"},
		Stub:        []string{"goroutine scheduling decisions", "file system (configuration root FS is an in-memory fs.FS)", "clock", "random source"},
		Unchecked:   []string{"cache hit or miss", "wording of build errors"},
		MustHit:     []string{"sequential_histories", "interleaved_histories", "context_switches", "builds"},
	})
}
