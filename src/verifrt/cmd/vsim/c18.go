package main

import (
	"bufio"
	"context"
	"bytes"
	"encoding/json"
	"errors"
	"fmt"
	"io"
	"net"
	"net/http"
	"net/url"
	"sort"
	"strings"

	corazahttp "github.com/corazawaf/coraza/v3/http"
	"github.com/corazawaf/coraza/v3/verifrt"
	"github.com/corazawaf/coraza/v3/verifrt/simos"
)

// C18 - the HTTP middleware blocks completely and otherwise passes traffic through intact.
//
// Simulated: three in-process parties, no sockets: a client (request with a
// scripted body stream of known or unknown length, optionally failing), a
// handler script (reads, headers, WriteHeader incl. 1xx/204/304, writes,
// flushes, ReadFrom) and a downstream ResponseWriter stub that follows the
// documented net/http server contract and records what the client receives.

type c18Op struct {
	Op   string `json:"op"` // read hdr status write flush readfrom
	N    int    `json:"n,omitempty"`
	K    string `json:"k,omitempty"`
	V    string `json:"v,omitempty"`
	Code int    `json:"code,omitempty"`
	Data string `json:"data,omitempty"`
}

type c18Scenario struct {
	DenyPhase  int     `json:"deny_phase"`
	DenyStatus int     `json:"deny_status"`
	ReqAccess  bool    `json:"req_access"`
	ReqLimit   int     `json:"req_limit"`
	ReqMem     int     `json:"req_mem"`
	ReqReject  bool    `json:"req_reject"`
	RespAccess bool    `json:"resp_access"`
	RespLimit  int     `json:"resp_limit"`
	RespReject bool    `json:"resp_reject"`
	URI        string  `json:"uri"`
	Body       string  `json:"body"`
	KnownLen   bool    `json:"known_len"`
	Chunks     []int   `json:"chunks"`
	ClientFail int     `json:"client_fail_at"`
	Handler    []c18Op `json:"handler"`
	Flusher    bool    `json:"downstream_flusher"`
	ReaderFrom bool    `json:"downstream_readerfrom"`
	DownFail   int     `json:"downstream_fail_at"`
	EngineOff  bool    `json:"engine_off,omitempty"`
	DetectOnly bool    `json:"detection_only,omitempty"`
	// ModeByCtl: the configured engine is On and a phase-1 rule switches this
	// transaction to the mode above by ctl:ruleEngine (the writer is wrapped and
	// the configured Reject actions stay in place)
	ModeByCtl bool `json:"mode_by_ctl,omitempty"`
	// PredBody > 0: before the request under test another request with a body of
	// that size (it may spill to disk) went through the same middleware to a
	// trivial handler; the request under test runs on the recycled transaction
	PredBody int `json:"predecessor_body,omitempty"`
	// Shape of the downstream connection: 0 plain, 1 http.Pusher (HTTP/2), 2 http.Hijacker (HTTP/1.x), 3 both
	Shape int `json:"downstream_shape,omitempty"`
	// ReqCT: Content-Type of the request ("" = none); only urlencoded bodies are
	// parsed into REQUEST_BODY, the body limit applies to every one of them
	ReqCT string `json:"request_content_type"`
	// CtxCancelled: the request's context is already cancelled when it arrives
	// (a client that half-closed after sending; net/http still delivers the
	// response to it)
	CtxCancelled bool `json:"context_cancelled,omitempty"`
	// RespCtl: response body access is Off in the configuration and a phase-3
	// rule switches it on for the transaction
	RespCtl bool `json:"resp_access_by_ctl,omitempty"`
}

const c18Tok = "EVILTOK"

func (sc *c18Scenario) text() string {
	var sb strings.Builder
	mode := "On"
	if sc.EngineOff {
		mode = "Off"
	} else if sc.DetectOnly {
		mode = "DetectionOnly"
	}
	ctlLine := ""
	if sc.ModeByCtl && mode != "On" {
		ctlLine = fmt.Sprintf("SecAction \"id:9,phase:1,pass,nolog,ctl:ruleEngine=%s\"\n", mode)
		mode = "On"
	}
	onoff := func(b bool) string {
		if b {
			return "On"
		}
		return "Off"
	}
	act := func(b bool) string {
		if b {
			return "Reject"
		}
		return "ProcessPartial"
	}
	fmt.Fprintf(&sb, "SecRuleEngine %s\nSecRequestBodyAccess %s\nSecResponseBodyAccess %s\nSecResponseBodyMimeType text/plain\n", mode, onoff(sc.ReqAccess), onoff(sc.RespAccess))
	fmt.Fprintf(&sb, "SecRequestBodyLimit %d\nSecRequestBodyInMemoryLimit %d\nSecRequestBodyLimitAction %s\nSecResponseBodyLimit %d\nSecResponseBodyLimitAction %s\n",
		sc.ReqLimit, sc.ReqMem, act(sc.ReqReject), sc.RespLimit, act(sc.RespReject))
	sb.WriteString("SecAuditEngine On\nSecAuditLogType verifrec\nSecAuditLog /simfs/a.log\nSecAuditLogParts ABZ\nSecAuditLogFormat JSON\n")
	sb.WriteString(ctlLine)
	if sc.RespCtl {
		sb.WriteString("SecAction \"id:8,phase:3,pass,nolog,ctl:responseBodyAccess=On\"\n")
	}
	st := ""
	if sc.DenyStatus != 0 {
		st = fmt.Sprintf(",status:%d", sc.DenyStatus)
	}
	switch sc.DenyPhase {
	case 1:
		fmt.Fprintf(&sb, "SecRule REQUEST_URI \"@contains %s\" \"id:1,phase:1,deny,log%s\"\n", c18Tok, st)
	case 2:
		fmt.Fprintf(&sb, "SecRule REQUEST_BODY \"@contains %s\" \"id:2,phase:2,deny,log%s\"\n", c18Tok, st)
	case 3:
		fmt.Fprintf(&sb, "SecRule RESPONSE_HEADERS:X-Tok \"@contains %s\" \"id:3,phase:3,deny,log%s\"\n", c18Tok, st)
	case 4:
		fmt.Fprintf(&sb, "SecRule RESPONSE_BODY \"@contains %s\" \"id:4,phase:4,deny,log%s\"\n", c18Tok, st)
	case 5:
		// a phase-4 rule that needs no body: it can only block a response whose
		// body is held back (the middleware runs phase 4 for buffered responses only)
		fmt.Fprintf(&sb, "SecRule RESPONSE_HEADERS:X-Tok \"@contains %s\" \"id:5,phase:4,deny,log%s\"\n", c18Tok, st)
	}
	return sb.String()
}

func c18Gen(t *verifrt.Tape) *c18Scenario {
	sc := &c18Scenario{ClientFail: -1, DownFail: -1}
	sc.DenyPhase = t.Draw(6)
	sc.DenyStatus = []int{0, 0, 401, 503}[t.Draw(4)]
	sc.ReqAccess = t.Draw(4) != 0
	sc.RespAccess = t.Draw(4) != 0
	sc.ReqLimit = 8 + t.Draw(56)
	sc.ReqMem = 1 + t.Draw(sc.ReqLimit)
	sc.ReqReject = t.Draw(2) == 0
	sc.RespLimit = 8 + t.Draw(56)
	sc.RespReject = t.Draw(2) == 0
	switch t.Draw(12) {
	case 0:
		sc.EngineOff = true
	case 1:
		sc.DetectOnly = true
	case 2:
		sc.EngineOff, sc.ModeByCtl = true, true
	case 3, 4:
		sc.DetectOnly, sc.ModeByCtl = true, true
	}
	hasTok := t.Draw(2) == 0
	sc.URI = "/app/" + pick(t, []string{"a", "b", "index"})
	if sc.DenyPhase == 1 && hasTok {
		sc.URI += "?q=" + c18Tok
	}
	mkBody := func(limit int, tok bool) string {
		sizes := []int{0, limit - 1, limit, limit + 1, 2 * limit, limit / 2, t.Draw(160)}
		n := sizes[t.Draw(len(sizes))]
		if n < 0 {
			n = 0
		}
		b := randBytes(t, n, "abcdefgh=&xyz")
		if tok && n >= len(c18Tok) {
			off := t.Draw(n - len(c18Tok) + 1)
			copy(b[off:], c18Tok)
		}
		return string(b)
	}
	sc.Body = mkBody(sc.ReqLimit, sc.DenyPhase == 2 && hasTok)
	sc.KnownLen = t.Draw(2) == 0
	for i, n := 0, t.Draw(4); i < n; i++ {
		sc.Chunks = append(sc.Chunks, t.Draw(20))
	}
	// handler script
	for i, n := 0, t.Draw(3); i < n; i++ {
		sc.Handler = append(sc.Handler, c18Op{Op: "read", N: []int{-1, 1, 7, 1000}[t.Draw(4)]})
	}
	if t.Draw(4) != 0 {
		sc.Handler = append(sc.Handler, c18Op{Op: "hdr", K: "Content-Type", V: pick(t, []string{"text/plain", "text/plain", "application/octet-stream", "text/plain; charset=utf-8"})})
	}
	if t.Draw(3) == 0 {
		sc.Handler = append(sc.Handler, c18Op{Op: "hdr", K: "X-App", V: "v1"})
	}
	if (sc.DenyPhase == 3 || sc.DenyPhase == 5) && hasTok {
		sc.Handler = append(sc.Handler, c18Op{Op: "hdr", K: "X-Tok", V: "x" + c18Tok})
	}
	if t.Draw(6) == 0 {
		sc.Handler = append(sc.Handler, c18Op{Op: "status", Code: []int{103, 100, 102, 103}[t.Draw(4)]})
		if t.Draw(4) == 0 {
			sc.Handler = append(sc.Handler, c18Op{Op: "status", Code: 103})
		}
	}
	if t.Draw(3) != 0 {
		sc.Handler = append(sc.Handler, c18Op{Op: "status", Code: []int{200, 200, 201, 404, 500, 204, 304, 302}[t.Draw(8)]})
	}
	respBody := mkBody(sc.RespLimit, sc.DenyPhase == 4 && hasTok)
	pos := 0
	for pos < len(respBody) {
		n := 1 + t.Draw(len(respBody)-pos)
		op := "write"
		if t.Draw(6) == 0 {
			op = "readfrom"
		}
		sc.Handler = append(sc.Handler, c18Op{Op: op, Data: respBody[pos : pos+n]})
		pos += n
		if t.Draw(3) == 0 {
			sc.Handler = append(sc.Handler, c18Op{Op: "flush"})
		}
	}
	if t.Draw(6) == 0 {
		sc.Handler = append(sc.Handler, c18Op{Op: "flush"})
	}
	if t.Draw(10) == 0 {
		sc.Handler = append(sc.Handler, c18Op{Op: "status", Code: 500}) // superfluous
	}
	if t.Draw(8) == 0 {
		sc.Handler = append(sc.Handler, c18Op{Op: "read", N: -1})
	}
	sc.Flusher = t.Draw(4) != 0
	sc.ReaderFrom = t.Draw(2) == 0
	if t.Draw(10) == 0 {
		sc.ClientFail = t.Draw(len(sc.Body) + 1)
	}
	if t.Draw(10) == 0 {
		sc.DownFail = t.Draw(40)
	}
	if t.Draw(3) == 0 {
		sc.PredBody = 1 + t.Draw(sc.ReqLimit+4)
	}
	sc.Shape = t.Draw(4)
	sc.CtxCancelled = t.Draw(8) == 0
	if !sc.RespAccess && t.Draw(3) == 0 {
		sc.RespCtl = true
	}
	sc.ReqCT = pick(t, []string{"application/x-www-form-urlencoded", "application/x-www-form-urlencoded", "application/x-www-form-urlencoded", "text/plain", "application/octet-stream", ""})
	return sc
}

// ---------------------------------------------------------------- downstream stub (net/http server contract)

type c18Info struct {
	Code   int
	Header http.Header
}

type c18Down struct {
	hdr       http.Header
	wrote     bool
	Status    int
	Sent      http.Header
	Body      bytes.Buffer
	Infos     []c18Info
	Flushes   int
	failAt    int
	WriteErrs int
}

func (d *c18Down) Header() http.Header { return d.hdr }

func (d *c18Down) WriteHeader(code int) {
	if d.wrote {
		return // superfluous
	}
	if code >= 100 && code <= 199 && code != http.StatusSwitchingProtocols {
		d.Infos = append(d.Infos, c18Info{code, d.hdr.Clone()})
		return
	}
	d.wrote = true
	d.Status = code
	d.Sent = d.hdr.Clone()
}

func bodyAllowed(status int) bool {
	switch {
	case status >= 100 && status <= 199:
		return false
	case status == 204, status == 304:
		return false
	}
	return true
}

func (d *c18Down) Write(b []byte) (int, error) {
	if !d.wrote {
		d.WriteHeader(200)
	}
	if !bodyAllowed(d.Status) {
		return 0, http.ErrBodyNotAllowed
	}
	if d.failAt >= 0 && d.Body.Len()+len(b) > d.failAt {
		n := d.failAt - d.Body.Len()
		if n < 0 {
			n = 0
		}
		d.Body.Write(b[:n])
		d.WriteErrs++
		return n, errInjectedWrite
	}
	return d.Body.Write(b)
}

func (d *c18Down) flush() {
	if !d.wrote {
		d.WriteHeader(200)
	}
	d.Flushes++
}

type c18DownF struct{ *c18Down }

func (d c18DownF) Flush() { d.flush() }

type c18DownR struct{ *c18Down }

func (d c18DownR) ReadFrom(r io.Reader) (int64, error) {
	return io.Copy(struct{ io.Writer }{d.c18Down}, r)
}

type c18DownFR struct{ *c18Down }

func (d c18DownFR) Flush() { d.flush() }
func (d c18DownFR) ReadFrom(r io.Reader) (int64, error) {
	return io.Copy(struct{ io.Writer }{d.c18Down}, r)
}

// connection shapes: net/http hands out writers that are Hijackers (HTTP/1.x),
// Pushers (HTTP/2), neither (recorders, other servers) or both (wrappers); the
// middleware picks a wrapper variant by that shape, and every variant owes the
// client the same thing
type c18Push struct{}

func (c18Push) Push(string, *http.PushOptions) error { return http.ErrNotSupported }

type c18Hijack struct{}

func (c18Hijack) Hijack() (net.Conn, *bufio.ReadWriter, error) {
	return nil, nil, errors.New("simulated connection cannot be hijacked")
}

func (sc *c18Scenario) newDown() (*c18Down, http.ResponseWriter) {
	d := &c18Down{hdr: http.Header{}, failAt: sc.DownFail}
	var p c18Push
	var hj c18Hijack
	switch {
	case sc.Flusher && sc.ReaderFrom:
		b := c18DownFR{d}
		switch sc.Shape {
		case 1:
			return d, struct {
				c18DownFR
				c18Push
			}{b, p}
		case 2:
			return d, struct {
				c18DownFR
				c18Hijack
			}{b, hj}
		case 3:
			return d, struct {
				c18DownFR
				c18Push
				c18Hijack
			}{b, p, hj}
		}
		return d, b
	case sc.Flusher:
		b := c18DownF{d}
		switch sc.Shape {
		case 1:
			return d, struct {
				c18DownF
				c18Push
			}{b, p}
		case 2:
			return d, struct {
				c18DownF
				c18Hijack
			}{b, hj}
		case 3:
			return d, struct {
				c18DownF
				c18Push
				c18Hijack
			}{b, p, hj}
		}
		return d, b
	case sc.ReaderFrom:
		b := c18DownR{d}
		switch sc.Shape {
		case 1:
			return d, struct {
				c18DownR
				c18Push
			}{b, p}
		case 2:
			return d, struct {
				c18DownR
				c18Hijack
			}{b, hj}
		case 3:
			return d, struct {
				c18DownR
				c18Push
				c18Hijack
			}{b, p, hj}
		}
		return d, b
	}
	switch sc.Shape {
	case 1:
		return d, struct {
			*c18Down
			c18Push
		}{d, p}
	case 2:
		return d, struct {
			*c18Down
			c18Hijack
		}{d, hj}
	case 3:
		return d, struct {
			*c18Down
			c18Push
			c18Hijack
		}{d, p, hj}
	}
	return d, d
}

// ---------------------------------------------------------------- handler script

type c18HandlerObs struct {
	Invoked bool
	Read    []byte
	ReadErr bool
	Panic   string
}

func (sc *c18Scenario) handler(obs *c18HandlerObs) http.Handler {
	return http.HandlerFunc(func(w http.ResponseWriter, r *http.Request) {
		obs.Invoked = true
		for _, op := range sc.Handler {
			switch op.Op {
			case "read":
				if r.Body == nil {
					continue
				}
				if op.N < 0 {
					b, err := io.ReadAll(r.Body)
					obs.Read = append(obs.Read, b...)
					if err != nil {
						obs.ReadErr = true
					}
				} else {
					buf := make([]byte, op.N)
					n, err := io.ReadFull(r.Body, buf)
					obs.Read = append(obs.Read, buf[:n]...)
					if err != nil && err != io.EOF && err != io.ErrUnexpectedEOF {
						obs.ReadErr = true
					}
				}
			case "hdr":
				w.Header().Set(op.K, op.V)
			case "status":
				w.WriteHeader(op.Code)
			case "write":
				w.Write([]byte(op.Data))
			case "flush":
				// the script uses Flush / ReadFrom only when the real downstream
				// offers them (the wrapper always does): its behaviour must not
				// depend on the wrapper being there
				if f, ok := w.(http.Flusher); ok && sc.Flusher {
					f.Flush()
				}
			case "readfrom":
				if rf, ok := w.(io.ReaderFrom); ok && sc.ReaderFrom {
					rf.ReadFrom(strings.NewReader(op.Data))
				} else {
					w.Write([]byte(op.Data))
				}
			}
		}
	})
}

func (sc *c18Scenario) request() *http.Request {
	u, _ := url.Parse(sc.URI)
	req := &http.Request{Method: "POST", URL: u, Proto: "HTTP/1.1", ProtoMajor: 1, ProtoMinor: 1, Header: http.Header{}, Host: "example.com", RemoteAddr: "10.9.8.7:4321"}
	if sc.ReqCT != "" {
		req.Header.Set("Content-Type", sc.ReqCT)
	}
	req.Header.Set("User-Agent", "sim")
	if sc.CtxCancelled {
		ctx, cancel := context.WithCancel(context.Background())
		cancel()
		req = req.WithContext(ctx)
	}
	if len(sc.Body) == 0 && sc.KnownLen {
		req.Body = http.NoBody
		return req
	}
	req.Body = io.NopCloser(newReader([]byte(sc.Body), sc.Chunks, sc.ClientFail, false))
	if sc.KnownLen {
		req.ContentLength = int64(len(sc.Body))
	} else {
		req.ContentLength = -1
	}
	return req
}

type c18Result struct {
	Status  int         `json:"status"`
	Header  http.Header `json:"header"`
	Body    string      `json:"body"`
	Infos   []int       `json:"infos"`
	Read    string      `json:"handler_read"`
	Invoked bool        `json:"handler_invoked"`
}

func c18Collect(d *c18Down, obs *c18HandlerObs) *c18Result {
	r := &c18Result{Status: d.Status, Header: d.Sent, Body: d.Body.String(), Read: string(obs.Read), Invoked: obs.Invoked}
	if !d.wrote {
		// net/http sends 200 with the headers set so far when the handler returns
		r.Status = 200
		r.Header = d.hdr.Clone()
	}
	for _, i := range d.Infos {
		r.Infos = append(r.Infos, i.Code)
	}
	return r
}

func hdrString(h http.Header) string {
	var ks []string
	for k := range h {
		ks = append(ks, k)
	}
	sort.Strings(ks)
	var sb strings.Builder
	for _, k := range ks {
		fmt.Fprintf(&sb, "%s=%v;", k, h[k])
	}
	return sb.String()
}

func c18Run(w *verifrt.World, tier Tier) *RunResult {
	res := &RunResult{}
	sc := c18Gen(w.Work)
	res.Sample = sc
	js, _ := json.Marshal(sc)
	res.Hash = hash64(string(js))
	text := sc.text()
	h, err := buildWAF(text)
	if err != nil {
		res.fail("C18", "build", "newwaf", "configuration rejected: %v\n%s", err, text)
		return res
	}
	defer h.Close()
	faulty := sc.ClientFail >= 0 || sc.DownFail >= 0
	recBefore := 0
	if sc.PredBody > 0 {
		w.PoolPolicy = verifrt.PoolLIFO
		res.count("predecessor_requests", 1)
		pu, _ := url.Parse("/pred?x=1")
		preq := &http.Request{Method: "POST", URL: pu, Proto: "HTTP/1.1", ProtoMajor: 1, ProtoMinor: 1, Header: http.Header{}, Host: "example.com", RemoteAddr: "10.9.8.6:4320"}
		preq.Header.Set("Content-Type", "application/x-www-form-urlencoded")
		pb := strings.Repeat("p=0123456789&", sc.PredBody/13+1)[:sc.PredBody]
		preq.Body = io.NopCloser(strings.NewReader(pb))
		preq.ContentLength = int64(len(pb))
		pd := &c18Down{hdr: http.Header{}, failAt: -1}
		if p := safely(func() {
			corazahttp.WrapHandler(h.WAF, http.HandlerFunc(func(rw http.ResponseWriter, r *http.Request) {
				io.Copy(io.Discard, r.Body)
				rw.Header().Set("Content-Type", "text/plain")
				rw.WriteHeader(200)
				rw.Write([]byte("predecessor response"))
			})).ServeHTTP(pd, preq)
		}); p != "" {
			res.fail("C18", "panic", "predecessor/"+panicSite(p), "the middleware panicked on the predecessor request: %s\nconfiguration:\n%s", p, text)
			return res
		}
		// look at the recording writer through a transaction that does not come
		// from the pool and does not go back to it: the object the predecessor
		// used must reach the request under test untouched
		w.PoolPolicy = verifrt.PoolNew
		ptx := h.WAF.NewTransactionWithID("probe-writer-0")
		if r0 := recWriterOf(ptx); r0 != nil {
			recBefore = len(r0.Records)
		}
		ptx.Close()
		w.PoolPolicy = verifrt.PoolLIFO
	}

	// ---- unwrapped reference
	refObs := &c18HandlerObs{}
	refDown, refW := sc.newDown()
	if p := safely(func() { sc.handler(refObs).ServeHTTP(refW, sc.request()) }); p != "" {
		res.fail("C18", "SIMULATOR-SELF-RACE", "reference-panic", "the unwrapped handler script panicked: %s", p)
		return res
	}
	ref := c18Collect(refDown, refObs)

	// ---- wrapped run
	obs := &c18HandlerObs{}
	down, ww := sc.newDown()
	disk := simos.Disk()
	filesBefore := disk.Files()
	var rec *recWriter
	if p := safely(func() { corazahttp.WrapHandler(h.WAF, sc.handler(obs)).ServeHTTP(ww, sc.request()) }); p != "" {
		res.fail("C18", "panic", panicSite(p), "the middleware panicked: %s\nconfiguration:\n%s\nscenario: %s", p, text, jsonOf(sc))
		return res
	}
	got := c18Collect(down, obs)
	ctx := func() string {
		return fmt.Sprintf("\nconfiguration:\n%sscenario: %s\nunwrapped: %s\nwrapped:   %s", text, jsonOf(sc), jsonOf(ref), jsonOf(got))
	}
	// ProcessLogging and Close ran: exactly one audit record, no temp file left
	{
		tx := h.WAF.NewTransactionWithID("probe-writer")
		rec = recWriterOf(tx)
		tx.Close()
	}
	if (!sc.EngineOff || sc.ModeByCtl) && rec != nil && len(rec.Records)-recBefore != 1 {
		res.fail("C18", "logging-count", fmt.Sprintf("records%d", min(len(rec.Records)-recBefore, 2)), "the middleware produced %d audit records for one request (ProcessLogging must run exactly once)%s", len(rec.Records)-recBefore, ctx())
	}
	if left := diffFiles(filesBefore, disk.Files()); len(left) > 0 {
		res.fail("C18", "temp-file-left", tmpKind(left[0]), "files left behind after the request: %v%s", left, ctx())
	}

	// ---- the model: does anything interrupt, and where?
	mode := "On"
	if sc.EngineOff {
		mode = "Off"
	} else if sc.DetectOnly {
		mode = "DetectionOnly"
	}
	denySt := 403
	if sc.DenyStatus != 0 {
		denySt = sc.DenyStatus
	}
	block := 0 // phase of the expected interruption
	blockStatus := 0
	body := sc.Body
	if mode == "On" {
		switch {
		case sc.DenyPhase == 1 && strings.Contains(sc.URI, c18Tok):
			block, blockStatus = 1, denySt
		case sc.ReqAccess && len(body) >= sc.ReqLimit && sc.ReqReject && (sc.ClientFail < 0 || sc.ClientFail >= sc.ReqLimit):
			block, blockStatus = 2, 413
		case sc.DenyPhase == 2 && sc.ReqAccess && sc.ClientFail < 0 && sc.ReqCT == "application/x-www-form-urlencoded":
			insp := body
			if len(insp) > sc.ReqLimit {
				insp = insp[:sc.ReqLimit]
			}
			if strings.Contains(insp, c18Tok) {
				block, blockStatus = 2, denySt
			}
		}
	}
	// response side (only if the handler is reached)
	var respBody strings.Builder
	headerPhaseRuns, tokHeader, ctype := false, false, ""
	firstStatus := 0
	for _, op := range sc.Handler {
		switch op.Op {
		case "hdr":
			if !headerPhaseRuns {
				if op.K == "X-Tok" {
					tokHeader = true
				}
				if op.K == "Content-Type" {
					ctype = op.V
				}
			}
		case "status":
			if !headerPhaseRuns && !(op.Code >= 100 && op.Code <= 199 && op.Code != 101) {
				headerPhaseRuns, firstStatus = true, op.Code
			}
		case "write", "readfrom":
			if !headerPhaseRuns {
				headerPhaseRuns, firstStatus = true, 200
			}
			respBody.WriteString(op.Data)
		case "flush":
			if !headerPhaseRuns && sc.Flusher {
				headerPhaseRuns, firstStatus = true, 200
			}
		}
	}
	informationalFirst := firstStatus >= 100 && firstStatus <= 199
	if mode == "On" && block == 0 {
		processable := (sc.RespAccess || sc.RespCtl) && strings.TrimSpace(strings.SplitN(ctype, ";", 2)[0]) == "text/plain"
		rb := respBody.String()
		switch {
		case sc.DenyPhase == 3 && headerPhaseRuns && tokHeader:
			block, blockStatus = 3, denySt
		case processable && len(rb) >= sc.RespLimit && sc.RespReject:
			block, blockStatus = 4, 500
		case sc.DenyPhase == 5 && processable && headerPhaseRuns && tokHeader:
			block, blockStatus = 4, denySt
		case sc.DenyPhase == 4 && processable:
			insp := rb
			if len(insp) > sc.RespLimit {
				insp = insp[:sc.RespLimit]
			}
			if strings.Contains(insp, c18Tok) {
				block, blockStatus = 4, denySt
			}
		}
	}
	res.count(fmt.Sprintf("expected_block_phase_%d", block), 1)
	res.count("mode_"+mode, 1)
	if sc.ModeByCtl {
		res.count("mode_by_ctl", 1)
	}
	res.Nontrivial = obs.Invoked || block > 0
	if len(sc.Body) > sc.ReqMem && sc.ReqAccess && mode != "Off" {
		res.count("request_body_spilled", 1)
	}

	if faulty {
		// under stream faults: no panic (checked), no foreign bytes, no temp files (checked)
		res.count("fault_runs", 1)
		if !bytes.HasPrefix([]byte(sc.Body), obs.Read) {
			res.fail("C18", "foreign-bytes", "handler-read", "under a stream fault the handler read bytes the client did not send: %q is not a prefix of %q%s", obs.Read, sc.Body, ctx())
		}
		return res
	}
	// whatever the model expects: a transaction that ended interrupted (its audit
	// record says so) has delivered none of the handler's body bytes
	if rec != nil && len(rec.Records) > recBefore {
		last := rec.Records[len(rec.Records)-1]
		if last.Log != nil && last.Log.Transaction() != nil && last.Log.Transaction().IsInterrupted() {
			res.count("interrupted_per_audit_record", 1)
			if got.Body != "" {
				res.fail("C18", "interrupted-but-delivered", fmt.Sprintf("deny%d", sc.DenyPhase), "the transaction ended interrupted (audit record) but the client received status %d and handler body bytes %q%s", got.Status, got.Body, ctx())
			}
		}
	}
	if informationalFirst && mode != "Off" {
		// 1xx handling is compared only through the differential below when nothing blocks
		res.count("informational_first", 1)
	}
	switch {
	case block == 1 || block == 2:
		if obs.Invoked {
			res.fail("C18", "handler-reached", fmt.Sprintf("phase%d", block), "the request must be interrupted in phase %d but the wrapped handler was invoked%s", block, ctx())
		}
		if got.Status != blockStatus {
			res.fail("C18", "block-status", fmt.Sprintf("phase%d", block), "the client received status %d, the interruption's status is %d%s", got.Status, blockStatus, ctx())
		}
		if got.Body != "" {
			res.fail("C18", "body-leak", fmt.Sprintf("phase%d", block), "the client received body bytes %q for a request interrupted in phase %d%s", got.Body, block, ctx())
		}
	case block == 3 || block == 4:
		if got.Body != "" {
			res.fail("C18", "body-leak", fmt.Sprintf("phase%d", block), "the response must be interrupted in phase %d but the client received handler body bytes %q%s", block, got.Body, ctx())
		}
		if got.Status != blockStatus && !informationalFirst {
			res.fail("C18", "block-status", fmt.Sprintf("phase%d", block), "the client received status %d, the interruption's status is %d%s", got.Status, blockStatus, ctx())
		}
		if got.Read != ref.Read {
			res.fail("C18", "request-body", "blocked-response", "the handler read %q wrapped and %q unwrapped%s", got.Read, ref.Read, ctx())
		}
	default:
		fp := mode
		if !obs.Invoked {
			res.fail("C18", "handler-not-reached", fp, "nothing interrupts this request but the wrapped handler was not invoked%s", ctx())
			break
		}
		if got.Read != ref.Read {
			res.fail("C18", "request-body", fp, "the handler read %q wrapped and %q unwrapped (client body %q)%s", got.Read, ref.Read, sc.Body, ctx())
		}
		if got.Status != ref.Status {
			res.fail("C18", "status", fmt.Sprintf("%s/%d", fp, ref.Status/100), "the client receives status %d wrapped and %d unwrapped%s", got.Status, ref.Status, ctx())
		}
		if fmt.Sprint(got.Infos) != fmt.Sprint(ref.Infos) {
			res.fail("C18", "informational", fp, "informational responses: %v wrapped, %v unwrapped%s", got.Infos, ref.Infos, ctx())
		}
		if hdrString(got.Header) != hdrString(ref.Header) {
			res.fail("C18", "headers", fp, "the client receives headers %s wrapped and %s unwrapped%s", hdrString(got.Header), hdrString(ref.Header), ctx())
		}
		if got.Body != ref.Body {
			res.fail("C18", "body", fp, "the client receives body %q wrapped and %q unwrapped%s", got.Body, ref.Body, ctx())
		}
	}
	return res
}

var _ = errors.New

func init() {
	register(&Check{
		ID: "C18", Level: "exploration", Run: c18Run,
		Runs:       [2]int{40000, 10000000},
		MaxSeconds: [2]int{90, 1500},
		Rule: "one run = one request through http.WrapHandler with three simulated parties: client (POST body of size around 0, L-1, L, L+1, 2L for a drawn request limit L in 8..64, in-memory limit M<=L so larger bodies spill to the simulated disk, known or unknown Content-Length, chunk script incl. (0,nil) reads, 1/10 failing mid-stream), " +
			"handler script (0-3 reads of all / part of the body, headers, optional 103, optional WriteHeader 200/201/404/500/204/304/302, body written in arbitrary chunks via Write or ReadFrom with interleaved Flush, superfluous WriteHeader), downstream ResponseWriter stub implementing the documented net/http contract (with / without Flusher and ReaderFrom, 1/10 failing at byte k). " +
			"Configuration: deny rule in phase 1, 2, 3 or 4 keyed on a token in URI / request body / response header / response body (with or without explicit status), body access on/off both ways, request and response limits with Reject / ProcessPartial, MIME on / off the list, engine On / DetectionOnly / Off. " +
			"Oracle: blocked in phase 1-2 => handler never invoked, status = interruption status (deny status, default 403; 413 for the request limit), no body; blocked in phase 3-4 => no handler body bytes, interruption status (500 for the response limit); otherwise the SAME handler script run unwrapped against an identical client and downstream must give the same status, informational responses, header set, body bytes and request bytes read; always: exactly one audit record, no temp file left. non-trivial = handler reached or a block expected; distinct = scenario hash",
		Assumptions: []string{"only deny interruptions and body-limit rejections are generated (the statement gives no status for drop / redirect)", "flush timing is not compared (buffering legitimately delays it)",
			"under injected client-read or downstream-write faults only: no panic, the handler never sees bytes the client did not send, no temp files"},
		Real:      []string{"http.WrapHandler, processRequest, rwInterceptor, transaction, BodyBuffer incl. spill"},
		Stub:      []string{"client request stream", "handler (scripted)", "downstream http.ResponseWriter (net/http contract stub)", "file system", "audit writer (recording plugin)"},
		Unchecked: []string{"status mapping of drop / redirect", "flush timing", "hijacked connections", "everything but no-panic / no-foreign-bytes / no-temp-files under stream faults"},
		MustHit:   []string{"predecessor_requests", "mode_by_ctl", "expected_block_phase_0", "expected_block_phase_1", "expected_block_phase_2", "expected_block_phase_3", "expected_block_phase_4", "request_body_spilled", "fault_runs", "mode_DetectionOnly", "mode_Off"},
	})
}
