//go:build !coraza.rule.multiphase_evaluation

package main

const multiphaseBuild = false
