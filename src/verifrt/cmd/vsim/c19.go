package main

import (
	"bytes"
	"encoding/json"
	"fmt"
	"regexp"
	"sort"
	"strings"
	"time"

	"github.com/corazawaf/coraza/v3/internal/corazawaf"
	"github.com/corazawaf/coraza/v3/types"
	"github.com/corazawaf/coraza/v3/verifrt"
	"github.com/corazawaf/coraza/v3/verifrt/simos"
)

// C19 - audit and error logging record exactly what happened, once, intact.
//
// Part 1 (decision table, single task): audit engine (configured and switched
// by ctl), relevant-status pattern, parts, format, log / nolog / auditlog /
// noauditlog combinations, interruption or not, On / DetectionOnly; recording
// writer registered through the plugin API plus the error callback.
// Part 2 (schedules): 2-8 simulated tasks finish transactions on one WAF whose
// REAL serial or concurrent writer writes to the simulated disk, under the
// seeded scheduler with yields inside the writers and a simulated clock that
// jumps across minute and day boundaries.

var c19Opts = genOpts{
	MaxRules: 6, Phases: []int{1, 1, 2, 3, 4, 5}, Disruptive: 5, Ctl: false, Chains: true, Response: true, LogFlags: true, Capture: true,
	EngineModes: []string{"On", "On", "DetectionOnly"},
}

type c19Scenario struct {
	Part     int         `json:"part"`
	Config   string      `json:"config"`
	Scripts  []*TxScript `json:"scripts"`
	Engine   string      `json:"audit_engine"`
	Pattern  string      `json:"relevant_pattern"`
	Format   string      `json:"format"`
	Writer   string      `json:"writer,omitempty"`
	Tasks    [][]int     `json:"tasks,omitempty"`
	ClockOps []int64     `json:"clock_jumps,omitempty"`
}

// flags derives (log enabled, audit enabled) from the rule's logging actions
// as documented: log sets both, nolog clears both, auditlog / noauditlog touch
// the audit flag only; a rule without any of them has neither.
func c19Flags(spec string) (log, audit bool) {
	for _, a := range strings.Split(spec, ",") {
		switch strings.TrimSpace(a) {
		case "log":
			log, audit = true, true
		case "nolog":
			log, audit = false, false
		case "auditlog":
			audit = true
		case "noauditlog":
			audit = false
		}
	}
	return
}

func c19GenConfig(t *verifrt.Tape, sc *c19Scenario, writer string) *Config {
	cfg := genConfig(t, &c19Opts)
	// every rule states its logging flags completely, so that the built-in
	// per-phase default action (phase 2: log,auditlog) does not enter the model
	var fix func(r *RuleSpec)
	fix = func(r *RuleSpec) {
		if r.Marker != "" {
			return
		}
		r.Log = pick(t, []string{"log", "nolog", "nolog,auditlog", "log,noauditlog"})
		if r.Chain != nil {
			fix(r.Chain)
		}
	}
	for i := range cfg.Rules {
		fix(&cfg.Rules[i])
	}
	cfg.DumpTX = false
	// default actions with logging flags: every rule states its own flags after
	// them, so the defaults must never decide
	for _, ph := range []int{1, 2, 5} {
		if t.Draw(3) == 0 {
			cfg.Lines = append(cfg.Lines, fmt.Sprintf("SecDefaultAction \"phase:%d,pass,%s\"", ph, pick(t, []string{"log,auditlog", "nolog", "nolog,auditlog", "log,noauditlog"})))
		}
	}
	cfg.ReqAccess = true
	cfg.RespAccess = t.Draw(2) == 0
	sc.Engine = pick(t, []string{"On", "RelevantOnly", "RelevantOnly", "Off"})
	sc.Pattern = pick(t, []string{"^[45]", "^403$", "^(302|500)$", "^2"})
	sc.Format = pick(t, []string{"JSON", "Native", "JSON"})
	parts := pick(t, []string{"ABCFHKZ", "ABKZ", "AHZ", "ABCDEFGHIJKZ", "AKZ", "ABCZ"})
	cfg.Lines = append(cfg.Lines,
		"SecAuditEngine "+sc.Engine,
		"SecAuditLogType "+writer,
		"SecAuditLog "+simos.Root+"/audit/audit.log",
		"SecAuditLogStorageDir "+simos.Root+"/audit/data",
		"SecAuditLogParts "+parts,
		"SecAuditLogFormat "+sc.Format,
		"SecAuditLogRelevantStatus \""+sc.Pattern+"\"",
	)
	if writer == "verifrec" && t.Draw(4) == 0 {
		// a writer registered through the plugin API needs no SecAuditLog target
		var kept []string
		for _, l := range cfg.Lines {
			if !strings.HasPrefix(l, "SecAuditLog "+simos.Root) {
				kept = append(kept, l)
			}
		}
		cfg.Lines = kept
	}
	// audit-engine switches by ctl, keyed on a token so that only some transactions take them
	if t.Draw(3) == 0 {
		cfg.Rules = append(cfg.Rules, RuleSpec{ID: 190, Phase: []int{1, 2, 5, 5}[t.Draw(4)], Targets: []TargetSpec{{Var: "REQUEST_URI"}}, Op: "@contains tok1",
			Log: "nolog", Extra: []string{"ctl:auditEngine=" + pick(t, []string{"On", "Off", "RelevantOnly"})}})
	}
	if t.Draw(4) == 0 {
		cfg.Rules = append(cfg.Rules, RuleSpec{ID: 191, Phase: []int{1, 2, 5}[t.Draw(3)], Targets: []TargetSpec{{Var: "REQUEST_URI"}}, Op: "@contains index",
			Log: "nolog", Extra: []string{"ctl:auditLogParts=" + pick(t, []string{"+E", "-H", "-K", "+K", "-B"})}})
	}
	return cfg
}

var nativeMarker = regexp.MustCompile(`^--([A-Za-z]{10})-([A-Z])--$`)

// c19WellFormed checks one formatted record.
func c19WellFormed(format string, b []byte, id string, parts string) string {
	switch strings.ToLower(format) {
	case "json":
		if bytes.ContainsAny(bytes.TrimRight(b, "\n"), "\n") {
			return "JSON record spans several lines"
		}
		var doc map[string]any
		if err := json.Unmarshal(b, &doc); err != nil {
			return "JSON record does not parse: " + err.Error()
		}
		tr, _ := doc["transaction"].(map[string]any)
		if tr == nil || fmt.Sprint(tr["id"]) != id {
			return fmt.Sprintf("JSON record does not carry transaction id %q", id)
		}
	case "native":
		lines := strings.Split(string(b), "\n")
		boundary := ""
		var seen []byte
		for _, l := range lines {
			m := nativeMarker.FindStringSubmatch(l)
			if m == nil {
				continue
			}
			if boundary == "" {
				boundary = m[1]
			}
			if m[1] != boundary {
				continue
			}
			seen = append(seen, m[2][0])
		}
		if string(seen) != parts {
			return fmt.Sprintf("native record has sections %q, configured parts are %q", seen, parts)
		}
		// the header (A, which carries the id) and the final boundary (Z) are
		// mandatory: without them the sections are not balanced
		if len(seen) == 0 || seen[0] != 'A' || seen[len(seen)-1] != 'Z' {
			return fmt.Sprintf("native record has sections %q: it must open with the header A and close with the final boundary Z", seen)
		}
		if !strings.Contains(string(b), id) {
			return fmt.Sprintf("native record does not carry transaction id %q", id)
		}
	}
	return ""
}

func c19Run(w *verifrt.World, tier Tier) *RunResult {
	if w.Work.Draw(5) < 3 {
		return c19Table(w, tier)
	}
	return c19Concurrent(w, tier)
}

// c19Drive performs the canonical call sequence up to (not including)
// ProcessLogging, stopping at the first interruption, and returns the response
// status if the response headers phase was reached with the engine not Off.
func c19Drive(tx types.Transaction, s *TxScript) (status string) {
	tx.ProcessConnection("10.1.1.1", 1111, "10.0.0.1", 80)
	tx.ProcessURI(s.URI, s.Method, "HTTP/1.1")
	for _, hd := range s.Headers {
		tx.AddRequestHeader(hd.K, hd.V)
	}
	if s.ContentType != "" {
		tx.AddRequestHeader("Content-Type", s.ContentType)
	}
	done := tx.ProcessRequestHeaders() != nil
	if !done && s.BodyKind != "" {
		it, _, _ := tx.WriteRequestBody(s.Body)
		done = it != nil
	}
	if !done {
		it, _ := tx.ProcessRequestBody()
		done = it != nil
	}
	if !done {
		for _, hd := range s.RespHeaders {
			tx.AddResponseHeader(hd.K, hd.V)
		}
		done = tx.ProcessResponseHeaders(s.RespStatus, "HTTP/1.1") != nil
		if !tx.IsRuleEngineOff() {
			status = fmt.Sprint(s.RespStatus)
		}
	}
	if !done && len(s.RespBody) > 0 {
		it, _, _ := tx.WriteResponseBody(s.RespBody)
		done = it != nil
	}
	if !done {
		tx.ProcessResponseBody()
	}
	return status
}

// ---------------------------------------------------------------- part 1

func c19Table(w *verifrt.World, tier Tier) *RunResult {
	res := &RunResult{}
	t := w.Work
	sc := &c19Scenario{Part: 1}
	cfg := c19GenConfig(t, sc, "verifrec")
	text := cfg.Text()
	sc.Config = text
	ro := &reqOpts{Body: true, Response: true, MaxArgs: 4}
	n := 1 + t.Draw(3)
	for i := 0; i < n; i++ {
		s := genScript(t, ro, fmt.Sprintf("tx%d", i))
		// arbitrary bytes in headers / bodies: newlines, boundary look-alikes, non-UTF-8
		if t.Draw(3) == 0 {
			s.Headers = append(s.Headers, Header{"X-Weird", pick(t, []string{"a\nb", "--abcdefghij-Z--", "\xff\xfe", "\"quoted\"", "--x--\n--abcdefghij-A--"})})
		}
		if t.Draw(4) == 0 {
			// control bytes, DEL and invalid UTF-8 in argument names and values
			sep := "?"
			if strings.Contains(s.URI, "?") {
				sep = "&"
			}
			s.URI += sep + pick(t, []string{"w=%01", "w=%07x", "w=a%0bb", "w=%7f", "w=%ff%fe", "%ff=1", "w=%00", "w=%1b[0m", "%01=%02"})
		}
		sc.Scripts = append(sc.Scripts, s)
	}
	res.Sample = sc
	js, _ := json.Marshal(sc)
	res.Hash = hash64(string(js))
	res.count("part1_runs", 1)
	h, err := buildWAF(text)
	if err != nil {
		if strings.HasPrefix(err.Error(), "PANIC") {
			res.fail("C19", "build-panic", "newwaf", "%v\n%s", err, text)
		}
		res.count("config_rejected", 1)
		return res
	}
	defer h.Close()
	var twin *wafHandle
	if cfg.Engine == "DetectionOnly" && !strings.Contains(text, "allow") && !strings.Contains(text, "block") {
		if th, err := buildWAF(strings.Replace(strings.Replace(text, "SecRuleEngine DetectionOnly", "SecRuleEngine On", 1), "SecAuditEngine "+sc.Engine, "SecAuditEngine Off", 1)); err == nil {
			twin = th
			defer th.Close()
		}
	}
	spec := map[int]*RuleSpec{}
	for i := range cfg.Rules {
		spec[cfg.Rules[i].ID] = &cfg.Rules[i]
	}
	pat := regexp.MustCompile(sc.Pattern)
	for _, s := range sc.Scripts {
		cbBefore := len(h.ErrCB)
		var tx types.Transaction
		var fired []int
		var status string
		engineOff := false
		// a sixth of the transactions meet a sink that stores the record and then
		// reports an error: the record count does not change
		failWrite := t.Draw(6) == 0
		if failWrite {
			res.count("writer_ack_lost", 1)
		}
		pan := safely(func() {
			tx = h.WAF.NewTransactionWithID(s.ID)
			status = c19Drive(tx, s)
			if failWrite {
				if rw := recWriterOf(tx); rw != nil {
					rw.FailAfterDelivery = 1
				}
			}
			tx.ProcessLogging()
			for _, mr := range tx.MatchedRules() {
				fired = append(fired, mr.Rule().ID())
			}
			if it := tx.Interruption(); it != nil {
				status = fmt.Sprint(it.Status)
			} else if itx, ok := tx.(*corazawaf.Transaction); ok && itx.DetectionOnlyInterruption() != nil {
				status = fmt.Sprint(itx.DetectionOnlyInterruption().Status)
			}
			engineOff = tx.IsRuleEngineOff()
			if twin != nil {
				// DetectionOnly: the would-be status is what the same transaction
				// gets with the engine On - decided by a twin WAF, not by what the
				// transaction under test remembers
				ttx := twin.WAF.NewTransactionWithID(s.ID + "-twin")
				tst := c19Drive(ttx, s)
				ttx.ProcessLogging() // a disruptive rule of the logging phase counts too
				if it := ttx.Interruption(); it != nil {
					tst = fmt.Sprint(it.Status)
				}
				ttx.Close()
				if tst != status {
					res.count("would_be_status_from_twin_differs", 1)
				}
				status = tst
				res.count("would_be_status_from_twin", 1)
			}
		})
		if pan != "" {
			res.fail("C19", "panic", panicSite(pan), "transaction %s panicked: %s\nconfiguration:\n%s", s.ID, pan, text)
			return res
		}
		_ = engineOff
		// effective audit engine: configured, then ctl switches of fired rules in firing order
		engine := sc.Engine
		for _, id := range fired {
			if r := spec[id]; r != nil {
				for _, e := range r.Extra {
					if strings.HasPrefix(e, "ctl:auditEngine=") {
						engine = strings.TrimPrefix(e, "ctl:auditEngine=")
					}
				}
			}
		}
		var recs []recRecord
		if rw := recWriterOf(tx); rw != nil {
			for _, r := range rw.Records {
				if r.ID == s.ID {
					recs = append(recs, r)
				}
			}
		}
		want := 0
		switch engine {
		case "On":
			want = 1
		case "RelevantOnly":
			if pat.MatchString(status) {
				want = 1
			}
			res.count("relevantonly_decisions", 1)
		}
		ctx := fmt.Sprintf("transaction %s %s (audit engine %s, status %q, pattern %s, fired %v)\nconfiguration:\n%s", s.ID, s.URI, engine, status, sc.Pattern, fired, text)
		if len(recs) != want {
			res.fail("C19", "record-count", fmt.Sprintf("%s/want%d-got%d", engine, want, len(recs)), "expected %d audit record(s), the writer received %d: %s", want, len(recs), ctx)
		}
		if want == 1 {
			res.count("records_expected", 1)
		}
		for _, r := range recs {
			parts := ""
			for _, p := range r.Log.Parts() {
				parts += string(rune(p))
			}
			if msg := c19WellFormed(sc.Format, r.Formatted, s.ID, parts); msg != "" {
				res.fail("C19", "malformed-record", strings.ToLower(sc.Format), "%s\nrecord: %q\n%s", msg, clip(string(r.Formatted), 1500), ctx)
			}
			if r.Log.Transaction().ID() != s.ID {
				res.fail("C19", "record-id", "id", "record carries id %q, transaction is %q", r.Log.Transaction().ID(), s.ID)
			}
			if strings.Contains(parts, "K") {
				wantIDs := map[int]bool{}
				for _, id := range fired {
					if sp := spec[id]; sp != nil {
						if _, audit := c19Flags(sp.Log); audit {
							wantIDs[id] = true
						}
					}
				}
				gotIDs := map[int]bool{}
				for _, id := range r.RuleIDs {
					gotIDs[id] = true
				}
				if fmt.Sprint(sortedKeys(wantIDs)) != fmt.Sprint(sortedKeys(gotIDs)) {
					res.fail("C19", "record-rules", "part-K", "the record lists rules %v, the fired audit-enabled rules are %v: %s", sortedKeys(gotIDs), sortedKeys(wantIDs), ctx)
				}
				res.count("rule_lists_checked", 1)
			}
		}
		// error callback: once per fired rule with logging enabled
		var wantCB, gotCB []int
		for _, id := range fired {
			if sp := spec[id]; sp != nil {
				if lg, _ := c19Flags(sp.Log); lg {
					wantCB = append(wantCB, id)
				}
			}
		}
		for _, c := range h.ErrCB[cbBefore:] {
			if spec[c.RuleID] != nil {
				gotCB = append(gotCB, c.RuleID)
			}
		}
		sort.Ints(wantCB)
		sort.Ints(gotCB)
		if fmt.Sprint(wantCB) != fmt.Sprint(gotCB) {
			res.fail("C19", "error-callback", "multiplicity", "the error callback fired for rules %v, the fired rules with logging enabled are %v: %s", gotCB, wantCB, ctx)
		}
		safely(func() { tx.Close() })
	}
	res.Nontrivial = true
	return res
}

func recWriterOf(tx types.Transaction) *recWriter {
	if itx, ok := tx.(*corazawaf.Transaction); ok && itx.WAF != nil {
		rw, _ := itx.WAF.AuditLogWriter().(*recWriter)
		return rw
	}
	return nil
}

func sortedKeys(m map[int]bool) []int {
	var out []int
	for k := range m {
		out = append(out, k)
	}
	sort.Ints(out)
	return out
}

// ---------------------------------------------------------------- part 2

func c19Concurrent(w *verifrt.World, tier Tier) *RunResult {
	res := &RunResult{}
	t := w.Work
	sc := &c19Scenario{Part: 2}
	sc.Writer = pick(t, []string{"Serial", "Concurrent"})
	cfg := c19GenConfig(t, sc, sc.Writer)
	sc.Engine = "On"
	sc.Format = pick(t, []string{"JSON", "JSON", "Native"})
	// keep the decision trivial here (engine On): this part is about writers and formatters
	var lines []string
	for _, l := range cfg.Lines {
		switch {
		case strings.HasPrefix(l, "SecAuditEngine "):
			l = "SecAuditEngine On"
		case strings.HasPrefix(l, "SecAuditLogFormat "):
			l = "SecAuditLogFormat " + sc.Format
		}
		lines = append(lines, l)
	}
	cfg.Lines = lines
	var rules []RuleSpec
	for _, r := range cfg.Rules {
		if r.ID != 190 {
			rules = append(rules, r)
		}
	}
	cfg.Rules = rules
	text := cfg.Text()
	sc.Config = text
	ntasks := 2 + t.Draw(5)
	ro := &reqOpts{Body: true, Response: true, MaxArgs: 3}
	id := 0
	for i := 0; i < ntasks; i++ {
		var idx []int
		for j, n := 0, 1+t.Draw(3); j < n; j++ {
			sc.Scripts = append(sc.Scripts, genScript(t, ro, fmt.Sprintf("cx%02d", id)))
			idx = append(idx, id)
			id++
		}
		sc.Tasks = append(sc.Tasks, idx)
	}
	// clock jumps applied by tasks before each transaction: seconds to cross minute / day boundaries
	for range sc.Scripts {
		sc.ClockOps = append(sc.ClockOps, []int64{0, 1, 59, 61, 3600, 86399, 86401, 30}[t.Draw(8)])
	}
	res.Sample = sc
	js, _ := json.Marshal(sc)
	res.Hash = hash64(string(js))
	res.count("part2_runs", 1)
	res.count("writer_"+sc.Writer, 1)

	disk := simos.Disk()
	disk.MkdirAllQuiet(simos.Root + "/audit/data")
	// start shortly before midnight so that jumps cross a day boundary
	w.SetClock(verifrt.Epoch + int64(23*time.Hour+59*time.Minute+30*time.Second))
	h, err := buildWAF(text)
	if err != nil {
		if strings.HasPrefix(err.Error(), "PANIC") {
			res.fail("C19", "build-panic", "newwaf", "%v\n%s", err, text)
		}
		res.count("config_rejected", 1)
		return res
	}
	h.Concurrent = true
	stamps := make([]int64, len(sc.Scripts))
	outs := make([]*Outcome, len(sc.Scripts))
	var fns []func()
	for _, idx := range sc.Tasks {
		idx := idx
		fns = append(fns, func() {
			for _, k := range idx {
				w.AdvanceClock(time.Duration(sc.ClockOps[k]) * time.Second)
				s := *sc.Scripts[k]
				outs[k] = runTxStamp(h, &s, &stamps[k])
			}
		})
	}
	sch := verifrt.NewSched(w.Sch, []int{verifrt.PolicyRandom, verifrt.PolicyRandom, verifrt.PolicyPCT, verifrt.PolicyRoundRobin}[w.Sch.Draw(4)])
	sch.RunLen = []int{1, 2, 4, 8, 16}[w.Sch.Draw(5)]
	tasks := sch.Run(fns)
	res.Interleave = sch.TraceHash
	res.Pairs = sch.Pairs
	res.count("context_switches", int64(sch.Switches))
	res.count("blocked_waits", int64(sch.Blocks))
	res.Nontrivial = sch.Switches > 0
	schedInfo := fmt.Sprintf("policy=%d runlen=%d switches=%d first switches=%v", sch.Policy, sch.RunLen, sch.Switches, firstN(sch.Trace, 20))
	if sch.Deadlock {
		res.Tainted = true
		res.fail("C19", "deadlock", "all-tasks-blocked", "every live task is blocked (%s)", schedInfo)
	}
	if sch.Overrun {
		res.Tainted = true
		res.fail("C19", "livelock", "step-budget", "step budget exceeded (%s)", schedInfo)
	}
	for _, tk := range tasks {
		if tk.Panic != nil {
			res.Tainted = true
			res.fail("C19", "panic", panicSite(tk.Stack), "task %d panicked: %v\n%s", tk.ID, tk.Panic, clip(tk.Stack, 2000))
		}
	}
	if len(res.Viol) > 0 {
		return res
	}
	for k, o := range outs {
		if o != nil && o.Panic != "" {
			res.fail("C19", "panic", panicSite(o.Panic), "transaction %s panicked in %s: %s", sc.Scripts[k].ID, o.PanicStep, o.Panic)
		}
	}
	h.Close()
	ctx := fmt.Sprintf("(%s writer, %s)\nconfiguration:\n%s", sc.Writer, schedInfo, text)
	var ids []string
	for _, s := range sc.Scripts {
		ids = append(ids, s.ID)
	}
	auditFilesCheck(res, "C19", sc.Writer, sc.Format, disk, ids, stamps, ctx)
	return res
}

// auditFilesCheck parses what the real serial / concurrent writer left on the
// simulated disk: whole records, every listed transaction exactly once, index
// entries of the concurrent writer not interleaved (and, when stamps are given,
// each file at the path derived from the transaction's timestamp and id).
// nativeRecords walks a text made of native-format records: every record opens
// with --<boundary>-A--, closes with --<boundary>-Z-- and carries no marker of
// another boundary in between; the line after the A marker holds the id.
func nativeRecords(text string) (ids map[string]int, problem string) {
	ids = map[string]int{}
	open := ""
	lines := strings.Split(text, "\n")
	for i, l := range lines {
		m := nativeMarker.FindStringSubmatch(l)
		if m == nil {
			continue
		}
		switch {
		case m[2] == "A":
			if open != "" {
				return ids, fmt.Sprintf("line %d opens a record (%s) inside the record with boundary %s", i, l, open)
			}
			open = m[1]
			if i+1 < len(lines) {
				hdr := lines[i+1]
				if j := strings.Index(hdr, "] "); j >= 0 {
					f := strings.Fields(hdr[j+2:])
					if len(f) > 0 {
						ids[f[0]]++
					}
				}
			}
		case open == "":
			return ids, fmt.Sprintf("line %d (%s) is a section marker outside any record", i, l)
		case m[1] != open:
			return ids, fmt.Sprintf("line %d (%s) carries another record's boundary inside the record with boundary %s", i, l, open)
		case m[2] == "Z":
			open = ""
		}
	}
	if open != "" {
		return ids, fmt.Sprintf("the record with boundary %s is never closed", open)
	}
	return ids, ""
}

func auditFilesCheck(res *RunResult, prop, writer, format string, disk *simos.FS, ids []string, stamps []int64, ctx string) {
	native := strings.EqualFold(format, "native")
	switch writer {
	case "Serial":
		data, _ := disk.ReadAll(simos.Root + "/audit/audit.log")
		seen := map[string]int{}
		if native {
			var problem string
			seen, problem = nativeRecords(string(data))
			if problem != "" {
				res.fail(prop, "serial-interleaved", "native-sections", "the serial audit log is not a sequence of balanced native records: %s %s\n%s", problem, ctx, clip(string(data), 1500))
			}
			data = nil
		}
		for li, line := range strings.Split(strings.TrimRight(string(data), "\n"), "\n") {
			if line == "" && len(data) == 0 {
				continue
			}
			var doc map[string]any
			if err := json.Unmarshal([]byte(line), &doc); err != nil {
				res.fail(prop, "serial-interleaved", "line-not-json", "line %d of the serial audit log is not one JSON document: %q %s", li, clip(line, 300), ctx)
				break
			}
			tr, _ := doc["transaction"].(map[string]any)
			seen[fmt.Sprint(tr["id"])]++
		}
		for _, id := range ids {
			if seen[id] != 1 {
				res.fail(prop, "serial-lost-or-duplicated", fmt.Sprintf("count%d", min(seen[id], 2)), "transaction %s appears %d times in the serial audit log, want exactly once %s", id, seen[id], ctx)
				break
			}
		}
		res.count("serial_records_checked", int64(len(ids)))
	case "Concurrent":
		index, _ := disk.ReadAll(simos.Root + "/audit/audit.log")
		idxLines := strings.Split(strings.TrimRight(string(index), "\n"), "\n")
		for k, id := range ids {
			p := ""
			if stamps != nil {
				ts := time.Unix(0, stamps[k]).UTC()
				ymd := ts.Format("20060102")
				p = fmt.Sprintf("%s/audit/data/%s/%s-%s/%s-%s%s-%s", simos.Root, ymd, ymd, ts.Format("1504"), ymd, ts.Format("1504"), ts.Format("05"), id)
				data, ok := disk.ReadAll(p)
				if !ok {
					res.fail(prop, "concurrent-file-missing", "path", "no audit file for transaction %s at the path derived from its timestamp (%s); files: %v %s", id, p, disk.Files(), ctx)
					break
				}
				if native {
					got, problem := nativeRecords(string(data))
					if problem != "" {
						res.fail(prop, "concurrent-file-corrupt", "native-sections", "audit file %s is not one balanced native record: %s %s\n%s", p, problem, ctx, clip(string(data), 800))
						break
					}
					if len(got) != 1 || got[id] != 1 {
						res.fail(prop, "concurrent-file-corrupt", "wrong-id", "audit file %s holds records of %v, want exactly one of %s %s", p, got, id, ctx)
						break
					}
				} else {
					var doc map[string]any
					if err := json.Unmarshal(data, &doc); err != nil {
						res.fail(prop, "concurrent-file-corrupt", "not-json", "audit file %s is not one JSON document: %q %s", p, clip(string(data), 300), ctx)
						break
					}
					if tr, _ := doc["transaction"].(map[string]any); tr == nil || fmt.Sprint(tr["id"]) != id {
						res.fail(prop, "concurrent-file-corrupt", "wrong-id", "audit file %s carries another transaction's record %s", p, ctx)
						break
					}
				}
			}
			n := 0
			for _, l := range idxLines {
				if strings.HasPrefix(l, id+" - ") {
					n++
					if p != "" && strings.TrimPrefix(l, id+" - ") != p {
						res.fail(prop, "concurrent-index", "wrong-path", "index entry of %s points to %q, the file is %q %s", id, strings.TrimPrefix(l, id+" - "), p, ctx)
					}
				}
			}
			if n != 1 {
				res.fail(prop, "concurrent-index", fmt.Sprintf("count%d", min(n, 2)), "transaction %s has %d entries in the index file, want exactly one %s\nindex:\n%s", id, n, ctx, clip(string(index), 1500))
				break
			}
		}
		// entries not interleaved: a client line opens an entry, "<id> - <path>" closes it
		groupOpen := false
		for li, l := range idxLines {
			isStart := strings.Contains(l, " - - [") // "<client> <host> - - [<timestamp>]"
			isEnd := strings.Contains(l, " - "+simos.Root+"/audit/data/")
			if isStart {
				if groupOpen {
					res.fail(prop, "concurrent-index", "interleaved", "index line %d starts a new entry before the previous one was finished %s\nindex:\n%s", li, ctx, clip(string(index), 1500))
					break
				}
				groupOpen = true
			}
			if isEnd {
				if !groupOpen {
					res.fail(prop, "concurrent-index", "interleaved", "index line %d finishes an entry that was not started %s\nindex:\n%s", li, ctx, clip(string(index), 1500))
					break
				}
				groupOpen = false
			}
		}
		res.count("concurrent_records_checked", int64(len(ids)))
	}
}

// runTxStamp is runTx that also reports the transaction's timestamp.
func runTxStamp(h *wafHandle, s *TxScript, stamp *int64) *Outcome {
	s.stampOut = stamp
	return runTx(h, s)
}

func init() {
	register(&Check{
		ID: "C19", Level: "exploration", NeedsRace: true, Isolated: true, Run: c19Run,
		Runs:       [2]int{8000, 600000},
		MaxSeconds: [2]int{120, 1700},
		Rule: "one run is either (part 1, 60%) a decision-table scenario: generated rules with log|nolog|auditlog|noauditlog combinations, chains, interruptions, On|DetectionOnly, audit engine On|RelevantOnly|Off optionally switched by ctl:auditEngine, relevant-status pattern, parts (optionally changed by ctl:auditLogParts), Native|JSON format, headers with newlines / boundary look-alikes / non-UTF-8, 1-3 transactions on a recording writer registered through the plugin API; " +
			"checked: exactly one record iff engine On or (RelevantOnly and real / would-be / response status matches; in DetectionOnly the would-be status is decided by a twin WAF that runs the same transaction with the engine On, not read from the transaction under test), record well-formed (JSON: one parseable line carrying the id; Native: one marker per configured part with one boundary), rules listed under part K = fired audit-enabled rules, error callback once per fired rule with logging enabled; " +
			"or (part 2, 40%) 2-6 simulated tasks finishing 1-3 transactions each on one WAF whose real serial or concurrent writer (real log.Logger) writes to the simulated disk, under the seeded scheduler with statement-level yields inside the writers and a simulated clock jumping across minute and day boundaries; " +
			"checked: serial log = whole JSON lines, every transaction exactly once; concurrent writer = one intact file per transaction at the path derived from its timestamp and id, one index entry each, entries not interleaved; race detector silent. non-trivial = part 1 always, part 2 with at least one context switch; distinct = scenario hash",
		Assumptions: []string{"RelevantOnly is only generated with a relevant-status pattern (the statement does not define the case without)", "the parts algebra of ctl:auditLogParts is not modelled: well-formedness is checked against the parts the record itself declares",
			"disk faults on audit writing are C20's clause"},
		Real:      []string{"ProcessLogging decision, AuditLog assembly, native and JSON formatters, serial and concurrent writers with real log.Logger, error callback path"},
		Stub:      []string{"goroutine scheduling decisions", "file system", "clock (jumps across minute/day boundaries)", "random source (native boundary)", "recording writer in part 1"},
		Unchecked: []string{"RelevantOnly without a configured pattern", "transactions whose ProcessLogging ran zero or several times", "textual content of parts other than rule list, id and well-formedness"},
		MustHit:   []string{"part1_runs", "part2_runs", "relevantonly_decisions", "rule_lists_checked", "writer_Serial", "writer_Concurrent", "context_switches"},
	})
}
