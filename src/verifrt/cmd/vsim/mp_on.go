//go:build coraza.rule.multiphase_evaluation

package main

// multiphaseBuild: this harness was built with the experimental multiphase
// evaluation tag (secondary build of C06's thorough tier).
const multiphaseBuild = true
