package main

import (
	"encoding/json"
	"fmt"
	"strings"

	"github.com/corazawaf/coraza/v3/internal/corazawaf"
	"github.com/corazawaf/coraza/v3/types"
	"github.com/corazawaf/coraza/v3/verifrt"
)

// C02 - first disruptive match interrupts; interruption is final; engine modes hold.
//
// Simulated: the connector as an unreliable caller.  The canonical call list
// of a transaction goes through a channel that drops, duplicates and reorders
// calls; bodies arrive in chunks.  Oracle: a reference phase machine written
// from the statement.  It does not predict WHETHER a phase runs for an
// anomalous call order (the statement only says "at most once"); it observes
// that from a marker rule and then predicts exactly which rules fire, given the
// data delivered so far, and what every call must return.

type c02Rule struct {
	ID      int    `json:"id"`
	Phase   int    `json:"phase"`
	Kind    string `json:"kind"` // uri hdr body status rhdr rbody always
	Tok     string `json:"tok,omitempty"`
	Action  string `json:"action"` // pass deny drop redirect
	Status  int    `json:"status,omitempty"`
	CtlMode string `json:"ctl_mode,omitempty"`
	// Pre is an earlier disruptive action of the same rule (only the LAST
	// disruptive action of a rule counts); PreFirst puts it at the very start
	// of the action list
	Pre      string `json:"pre,omitempty"`
	PreFirst bool   `json:"pre_first,omitempty"`
}

type c02Call struct {
	Op   string `json:"op"`
	K    string `json:"k,omitempty"`
	V    string `json:"v,omitempty"`
	Code int    `json:"code,omitempty"`
}

type c02Scenario struct {
	Mode      string    `json:"mode"`
	Rules     []c02Rule `json:"rules"`
	Calls     []c02Call `json:"calls"`
	Canonical bool      `json:"canonical"`
	SmallLim  int       `json:"small_limit,omitempty"`
	Reject    bool      `json:"reject,omitempty"`
	// BrokenBody: the request announces multipart/form-data but the body is not
	// multipart, so the body processor fails (REQBODY_ERROR) in phase 2
	BrokenBody bool `json:"broken_body,omitempty"`
	// Defaults: SecDefaultAction lines with a disruptive default for some phases;
	// every generated rule states its own action (pass included), which wins
	Defaults []string `json:"default_actions,omitempty"`
	// Removed: id of a generated rule that a SecRuleRemoveById line after the
	// rules takes out again; the others keep their configuration order
	Removed   int `json:"removed_rule,omitempty"`
	RemovedAt int `json:"removed_at,omitempty"`
	// Pred: before the transaction under test, another one runs to completion on
	// the same WAF with every token present (so that a ctl:ruleEngine rule fires)
	// and is closed; the transaction under test gets the recycled object and must
	// start in the configured mode
	Pred bool `json:"predecessor,omitempty"`
}

const c02Redirect = "http://example.com/blocked"

func (r *c02Rule) text() string {
	acts := []string{fmt.Sprintf("id:%d", r.ID), fmt.Sprintf("phase:%d", r.Phase)}
	if r.Pre != "" {
		pre := r.Pre
		if pre == "redirect" {
			pre = "redirect:http://example.com/early"
		}
		if r.PreFirst {
			acts = append([]string{pre}, acts...)
		} else {
			acts = append(acts, pre)
		}
	}
	switch r.Action {
	case "redirect":
		acts = append(acts, "redirect:"+c02Redirect)
	default:
		acts = append(acts, r.Action)
	}
	if r.Status != 0 {
		acts = append(acts, fmt.Sprintf("status:%d", r.Status))
	}
	acts = append(acts, "log")
	if r.CtlMode != "" {
		acts = append(acts, "ctl:ruleEngine="+r.CtlMode)
	}
	a := strings.Join(acts, ",")
	switch r.Kind {
	case "uri":
		return fmt.Sprintf("SecRule REQUEST_URI \"@contains %s\" \"%s\"", r.Tok, a)
	case "hdr":
		return fmt.Sprintf("SecRule REQUEST_HEADERS:%s \"@streq yes\" \"%s\"", r.Tok, a)
	case "body":
		return fmt.Sprintf("SecRule REQUEST_BODY \"@contains %s\" \"%s\"", r.Tok, a)
	case "status":
		return fmt.Sprintf("SecRule RESPONSE_STATUS \"@streq %s\" \"%s\"", r.Tok, a)
	case "rhdr":
		return fmt.Sprintf("SecRule RESPONSE_HEADERS:%s \"@streq yes\" \"%s\"", r.Tok, a)
	case "rbody":
		return fmt.Sprintf("SecRule RESPONSE_BODY \"@contains %s\" \"%s\"", r.Tok, a)
	case "rberr":
		return fmt.Sprintf("SecRule REQBODY_ERROR \"@eq 1\" \"%s\"", a)
	}
	return fmt.Sprintf("SecAction \"%s\"", a)
}

func (sc *c02Scenario) text() string {
	var sb strings.Builder
	fmt.Fprintf(&sb, "SecRuleEngine %s\nSecRequestBodyAccess On\nSecResponseBodyAccess On\nSecResponseBodyMimeType text/plain\n", sc.Mode)
	if sc.SmallLim > 0 {
		act := "ProcessPartial"
		if sc.Reject {
			act = "Reject"
		}
		fmt.Fprintf(&sb, "SecRequestBodyLimit %d\nSecRequestBodyLimitAction %s\nSecResponseBodyLimit %d\nSecResponseBodyLimitAction %s\n", sc.SmallLim, act, sc.SmallLim, act)
	}
	sb.WriteString("SecAction \"id:9001,phase:1,pass,nolog,ctl:forceRequestBodyVariable=On\"\n")
	for _, d := range sc.Defaults {
		sb.WriteString(d + "\n")
	}
	for p := 2; p <= 5; p++ {
		fmt.Fprintf(&sb, "SecAction \"id:900%d,phase:%d,pass,nolog\"\n", p, p)
	}
	for i := range sc.Rules {
		if sc.Removed != 0 && i == sc.RemovedAt {
			// the rule that is removed again below: it would fire for every request
			fmt.Fprintf(&sb, "SecAction \"id:%d,phase:1,deny,status:418,log\"\n", sc.Removed)
		}
		sb.WriteString(sc.Rules[i].text())
		sb.WriteByte('\n')
	}
	if sc.Removed != 0 {
		fmt.Fprintf(&sb, "SecRuleRemoveById %d\n", sc.Removed)
	}
	return sb.String()
}

func c02Gen(t *verifrt.Tape) *c02Scenario {
	sc := &c02Scenario{Mode: pick(t, []string{"On", "On", "On", "DetectionOnly", "DetectionOnly", "Off"})}
	if t.Draw(5) == 0 {
		sc.SmallLim = 4 + t.Draw(12)
		sc.Reject = t.Draw(2) == 0
	}
	n := 2 + t.Draw(7)
	ctlUsed := 0
	for i := 0; i < n; i++ {
		r := c02Rule{ID: 101 + i, Phase: 1 + t.Draw(5)}
		r.Kind = pick(t, []string{"uri", "uri", "hdr", "hdr", "body", "status", "rhdr", "rbody", "always", "rberr"})
		if r.Kind == "rberr" && r.Phase < 2 {
			r.Phase = 2
		}
		if sc.SmallLim > 0 && (r.Kind == "body" || r.Kind == "rbody") {
			// the visible body would be a truncated prefix; C10 covers that
			r.Kind = "uri"
		}
		switch r.Kind {
		case "uri":
			r.Tok = pick(t, []string{"tA", "tB", "tC"})
		case "hdr":
			r.Tok = pick(t, []string{"X-K1", "X-K2"})
		case "body":
			r.Tok = pick(t, []string{"bA", "bB"})
		case "status":
			r.Tok = pick(t, []string{"200", "404", "500"})
		case "rhdr":
			r.Tok = pick(t, []string{"X-R1", "X-R2"})
		case "rbody":
			r.Tok = pick(t, []string{"rA", "rB"})
		}
		r.Action = pick(t, []string{"pass", "pass", "deny", "deny", "drop", "redirect"})
		if r.Action != "pass" && t.Draw(2) == 0 {
			if r.Action == "redirect" {
				r.Status = []int{301, 302, 303, 307}[t.Draw(4)]
			} else {
				r.Status = []int{403, 401, 500, 429}[t.Draw(4)]
			}
		}
		if t.Draw(6) == 0 {
			r.Pre = pick(t, []string{"deny", "drop", "redirect", "pass"})
			r.PreFirst = t.Draw(2) == 0
		}
		if ctlUsed < 3 && t.Draw(6) == 0 {
			r.CtlMode = pick(t, []string{"On", "DetectionOnly", "Off"})
			r.Action, r.Status = "pass", 0
			ctlUsed++
		}
		sc.Rules = append(sc.Rules, r)
	}
	// canonical call list
	var calls []c02Call
	calls = append(calls, c02Call{Op: "conn"})
	uri := "/p"
	for _, tk := range []string{"tA", "tB", "tC"} {
		if t.Draw(3) == 0 {
			uri += "/" + tk
		}
	}
	calls = append(calls, c02Call{Op: "uri", V: uri})
	sc.BrokenBody = sc.SmallLim == 0 && t.Draw(5) == 0
	if sc.BrokenBody {
		calls = append(calls, c02Call{Op: "reqhdr", K: "Content-Type", V: "multipart/form-data; boundary=zzzz"})
	} else {
		calls = append(calls, c02Call{Op: "reqhdr", K: "Content-Type", V: "application/x-www-form-urlencoded"})
	}
	for _, k := range []string{"X-K1", "X-K2"} {
		if t.Draw(3) == 0 {
			calls = append(calls, c02Call{Op: "reqhdr", K: k, V: "yes"})
		}
	}
	calls = append(calls, c02Call{Op: "p1"})
	nb := t.Draw(3)
	for i := 0; i < nb; i++ {
		calls = append(calls, c02Call{Op: pick(t, []string{"reqwrite", "reqwrite", "reqread"}), V: pick(t, []string{"x=1", "y=bA", "z=bB&", "w=bAbB", "q=012345678901234567890123456789"})})
	}
	calls = append(calls, c02Call{Op: "p2"})
	calls = append(calls, c02Call{Op: "resphdr", K: "Content-Type", V: "text/plain"})
	for _, k := range []string{"X-R1", "X-R2"} {
		if t.Draw(3) == 0 {
			calls = append(calls, c02Call{Op: "resphdr", K: k, V: "yes"})
		}
	}
	if t.Draw(6) == 0 {
		// an interim response announced first (a second call of the same phase)
		calls = append(calls, c02Call{Op: "p3", Code: []int{103, 100, 102}[t.Draw(3)]})
	}
	calls = append(calls, c02Call{Op: "p3", Code: []int{200, 200, 404, 500}[t.Draw(4)]})
	nr := t.Draw(3)
	for i := 0; i < nr; i++ {
		calls = append(calls, c02Call{Op: pick(t, []string{"respwrite", "respwrite", "respread"}), V: pick(t, []string{"hello", "rA.", "..rB", "rArB", "012345678901234567890123456789"})})
	}
	calls = append(calls, c02Call{Op: "p4"})
	calls = append(calls, c02Call{Op: "p5"})
	sc.Canonical = t.Draw(3) == 0
	if !sc.Canonical {
		// unreliable channel: drop, duplicate, reorder
		var out []c02Call
		for _, c := range calls {
			switch t.Draw(10) {
			case 0:
				continue // dropped
			case 1:
				out = append(out, c, c) // duplicated
			default:
				out = append(out, c)
			}
		}
		for i := 0; i+1 < len(out); i++ {
			if t.Draw(6) == 0 {
				d := 1 + t.Draw(3)
				if i+d < len(out) {
					out[i], out[i+d] = out[i+d], out[i]
				}
			}
		}
		if len(out) > 24 {
			out = out[:24]
		}
		calls = out
	}
	sc.Calls = calls
	if len(sc.Rules) >= 3 && t.Draw(4) == 0 {
		// remove one of the generated rules again (not the last one)
		k := t.Draw(len(sc.Rules) - 1)
		sc.Removed = sc.Rules[k].ID
		sc.Rules = append(sc.Rules[:k:k], sc.Rules[k+1:]...)
		sc.RemovedAt = k
	}
	sc.Pred = t.Draw(4) == 0
	if t.Draw(4) == 0 {
		for _, ph := range []int{1, 2, 3, 4} {
			if t.Draw(2) == 0 {
				sc.Defaults = append(sc.Defaults, fmt.Sprintf("SecDefaultAction \"phase:%d,%s,log\"", ph, pick(t, []string{"deny", "deny", "drop", "redirect:http://example.com/default"})))
			}
		}
	}
	return sc
}

type c02Model struct {
	mode         string
	uri          string
	reqHdr       map[string]bool
	ctDelivered  bool
	forceVar     bool
	reqBuf       string
	reqBodyVar   string
	respHdr      map[string]bool
	respCT       bool
	respBuf      string
	respBodyVar  string
	statusVar    string
	interruption *itRec
	wouldBe      *itRec
	ran          [6]bool
	ctlSeen      bool
	adopted      bool // a rule switched the engine Off in mid-phase: what the rest of that phase did was taken as is
	limitTouched bool
	reqBodyErr   bool
}

func (m *c02Model) visible(r *c02Rule) bool {
	switch r.Kind {
	case "uri":
		return strings.Contains(m.uri, r.Tok)
	case "hdr":
		return m.reqHdr[r.Tok]
	case "body":
		return strings.Contains(m.reqBodyVar, r.Tok)
	case "status":
		return m.statusVar == r.Tok
	case "rhdr":
		return m.respHdr[r.Tok]
	case "rbody":
		return strings.Contains(m.respBodyVar, r.Tok)
	case "rberr":
		return m.reqBodyErr
	}
	return true
}

func c02Expected(r *c02Rule) *itRec {
	it := &itRec{RuleID: r.ID, Action: r.Action}
	switch r.Action {
	case "deny":
		it.Status = 403
		if r.Status != 0 {
			it.Status = r.Status
		}
	case "drop":
		it.Status = r.Status // 0 when the rule has none (compared leniently)
	case "redirect":
		it.Status = 302
		if r.Status != 0 {
			it.Status = r.Status
		}
		it.Data = c02Redirect
	}
	return it
}

func c02ItMatch(want, got *itRec, r *c02Rule) bool {
	if want == nil || got == nil {
		return want == got
	}
	if want.RuleID != got.RuleID || want.Action != got.Action || want.Data != got.Data {
		return false
	}
	if want.Action == "drop" && r != nil && r.Status == 0 {
		return true // the statement does not give drop a default status
	}
	return want.Status == got.Status
}

func c02Run(w *verifrt.World, tier Tier) *RunResult {
	res := &RunResult{}
	sc := c02Gen(w.Work)
	res.Sample = sc
	js, _ := json.Marshal(sc)
	res.Hash = hash64(string(js))
	text := sc.text()
	h, err := buildWAF(text)
	if err != nil {
		if strings.HasPrefix(err.Error(), "PANIC") {
			res.fail("C02", "build-panic", "newwaf", "%v\n%s", err, text)
		}
		res.count("config_rejected", 1)
		return res
	}
	defer h.Close()
	rules := map[int]*c02Rule{}
	for i := range sc.Rules {
		rules[sc.Rules[i].ID] = &sc.Rules[i]
	}
	m := &c02Model{mode: sc.Mode, reqHdr: map[string]bool{}, respHdr: map[string]bool{}}
	if sc.Pred {
		w.PoolPolicy = verifrt.PoolLIFO
		res.count("predecessor_runs", 1)
		if pan := safely(func() {
			ptx := h.WAF.NewTransactionWithID("c02-pred")
			ptx.ProcessConnection("10.0.0.8", 4444, "10.0.0.1", 80)
			ptx.ProcessURI("/p/tA/tB/tC", "POST", "HTTP/1.1")
			ptx.AddRequestHeader("Content-Type", "application/x-www-form-urlencoded")
			ptx.AddRequestHeader("X-K1", "yes")
			ptx.AddRequestHeader("X-K2", "yes")
			ptx.ProcessRequestHeaders()
			ptx.WriteRequestBody([]byte("u=bAbB"))
			ptx.ProcessRequestBody()
			ptx.AddResponseHeader("Content-Type", "text/plain")
			ptx.AddResponseHeader("X-R1", "yes")
			ptx.AddResponseHeader("X-R2", "yes")
			ptx.ProcessResponseHeaders(200, "HTTP/1.1")
			ptx.WriteResponseBody([]byte("rArB"))
			ptx.ProcessResponseBody()
			ptx.ProcessLogging()
			ptx.Close()
		}); pan != "" {
			res.fail("C02", "panic", "predecessor/"+panicSite(pan), "the predecessor transaction panicked: %s\nconfiguration:\n%s", pan, text)
			return res
		}
		h.ErrCB = nil
	}
	tx := h.WAF.NewTransactionWithID("c02")
	itx, _ := tx.(*corazawaf.Transaction)
	seen := 0
	limited := sc.SmallLim > 0
	fpx := func() string {
		s := m.mode
		if !sc.Canonical {
			s += "/anomalous-order"
		}
		if limited {
			s += "/small-limit"
		}
		return s
	}
	ctx := func() string {
		return fmt.Sprintf("\nconfiguration:\n%s\ncalls: %s", text, jsonOf(sc.Calls))
	}
	for ci, c := range sc.Calls {
		var ret *types.Interruption
		var hasRet bool
		modeAtStart := m.mode
		pan := safely(func() {
			switch c.Op {
			case "conn":
				tx.ProcessConnection("10.0.0.9", 5555, "10.0.0.1", 80)
			case "uri":
				tx.ProcessURI(c.V, "POST", "HTTP/1.1")
				m.uri = c.V
			case "reqhdr":
				tx.AddRequestHeader(c.K, c.V)
				if c.K == "Content-Type" {
					m.ctDelivered = true
				} else {
					m.reqHdr[c.K] = true
				}
			case "p1":
				ret, hasRet = tx.ProcessRequestHeaders(), true
			case "reqwrite":
				ret, _, _ = tx.WriteRequestBody([]byte(c.V))
				if m.mode != "Off" {
					m.reqBuf += c.V
				}
			case "reqread":
				ret, _, _ = tx.ReadRequestBodyFrom(strings.NewReader(c.V))
				if m.mode != "Off" {
					m.reqBuf += c.V
				}
			case "p2":
				ret, _ = tx.ProcessRequestBody()
				hasRet = true
			case "resphdr":
				tx.AddResponseHeader(c.K, c.V)
				if c.K == "Content-Type" {
					m.respCT = true
				} else {
					m.respHdr[c.K] = true
				}
			case "p3":
				ret, hasRet = tx.ProcessResponseHeaders(c.Code, "HTTP/1.1"), true
			case "respwrite":
				ret, _, _ = tx.WriteResponseBody([]byte(c.V))
				if m.mode != "Off" {
					m.respBuf += c.V
				}
			case "respread":
				ret, _, _ = tx.ReadResponseBodyFrom(strings.NewReader(c.V))
				if m.mode != "Off" {
					m.respBuf += c.V
				}
			case "p4":
				ret, _ = tx.ProcessResponseBody()
				hasRet = true
			case "p5":
				tx.ProcessLogging()
			}
		})
		if pan != "" {
			res.fail("C02", "panic", panicSite(pan), "call %d (%s) panicked: %s%s", ci, c.Op, pan, ctx())
			return res
		}
		mrs := tx.MatchedRules()
		delta := mrs[min(seen, len(mrs)):]
		seen = len(mrs)
		var ranNow []int
		adopt := false   // the rest of a phase after a ctl:ruleEngine switch is unspecified: take what happened
		offOnly := false // ... and the switch to Off was the only mode switch that fired in that phase
		byPhase := map[int][]int{}
		for _, mr := range delta {
			id := mr.Rule().ID()
			if id >= 9001 && id <= 9005 {
				ranNow = append(ranNow, id-9000)
				continue
			}
			if r := rules[id]; r != nil {
				byPhase[r.Phase] = append(byPhase[r.Phase], id)
			}
		}
		// ---- engine Off: nothing is evaluated
		if modeAtStart == "Off" && len(delta) > 0 {
			res.fail("C02", "off-evaluates", fpx(), "engine Off but call %d (%s) evaluated rules %v%s", ci, c.Op, summarise(delta).Order, ctx())
			return res
		}
		for p := range byPhase {
			found := false
			for _, q := range ranNow {
				if q == p {
					found = true
				}
			}
			if !found {
				res.fail("C02", "rule-outside-phase", fpx(), "call %d (%s): rules %v of phase %d fired but the phase marker did not%s", ci, c.Op, byPhase[p], p, ctx())
				return res
			}
		}
		for _, p := range ranNow {
			if p <= 4 {
				if m.ran[p] {
					res.fail("C02", "phase-twice", fmt.Sprintf("phase%d/%s", p, fpx()), "call %d (%s) evaluated the rules of phase %d a second time%s", ci, c.Op, p, ctx())
					return res
				}
				if m.interruption != nil {
					res.fail("C02", "evaluates-after-interruption", fmt.Sprintf("phase%d/%s", p, fpx()), "call %d (%s) evaluated phase %d although the transaction was already interrupted by %v%s", ci, c.Op, p, m.interruption, ctx())
					return res
				}
			}
			m.ran[p] = true
			// data that becomes visible when the phase runs
			switch p {
			case 1:
				m.forceVar = true
			case 2:
				switch {
				case m.reqBuf != "" && m.ctDelivered && sc.BrokenBody:
					m.reqBodyErr = true // the multipart processor fails; REQUEST_BODY stays empty
				case m.reqBuf != "" && (m.ctDelivered || m.forceVar):
					m.reqBodyVar = m.reqBuf
				}
			case 3:
				m.statusVar = fmt.Sprint(c.Code)
			case 4:
				if m.respCT {
					m.respBodyVar = m.respBuf
				}
			}
			// ---- which rules must fire
			var want []int
			stopPredict := false
			for i := range sc.Rules {
				r := &sc.Rules[i]
				if r.Phase != p {
					continue
				}
				if !m.visible(r) {
					continue
				}
				want = append(want, r.ID)
				if r.CtlMode != "" {
					m.mode = r.CtlMode
					m.ctlSeen = true
					res.count("ctl_switch_to_"+r.CtlMode, 1)
					if r.CtlMode == "Off" {
						// "with the engine Off no rule is evaluated" is decided at the
						// next call; whether the rest of THIS phase still runs after a
						// rule switched the engine off is not stated: take what happened
						stopPredict = true
						m.adopted = true
						res.count("unchecked_after_ctl_switch", 1)
						break
					}
					// On / DetectionOnly: the statement's clauses for that mode apply
					// to the rules that follow, in this phase too
					continue
				}
				if r.Action != "pass" {
					switch m.mode {
					case "On":
						if m.interruption == nil {
							m.interruption = c02Expected(r)
							res.count("interruptions", 1)
						}
						if p != 5 {
							goto donePhase
						}
					case "DetectionOnly":
						if m.wouldBe == nil {
							m.wouldBe = c02Expected(r)
						}
					}
				}
			}
		donePhase:
			got := byPhase[p]
			if stopPredict {
				if len(got) < len(want) || fmt.Sprint(got[:len(want)]) != fmt.Sprint(want) {
					res.fail("C02", "fired-rules", fmt.Sprintf("phase%d/%s", p, fpx()), "call %d (%s): phase %d fired %v, expected it to start with %v%s", ci, c.Op, p, got, want, ctx())
					return res
				}
				adopt = true
				// the rest of the phase was taken as it happened: so is the mode it
				// ended in (a later rule of the phase may have switched again)
				ctlFired := 0
				for _, id := range got {
					if r := rules[id]; r != nil && r.CtlMode != "" {
						m.mode = r.CtlMode
						ctlFired++
					}
				}
				offOnly = ctlFired == 1
			} else if fmt.Sprint(got) != fmt.Sprint(want) {
				res.fail("C02", "fired-rules", fmt.Sprintf("phase%d/%s", p, fpx()), "call %d (%s): phase %d fired %v, expected %v (data visible: uri=%q hdr=%v body=%q status=%q rhdr=%v rbody=%q; mode %s)%s", ci, c.Op, p, got, want, m.uri, m.reqHdr, m.reqBodyVar, m.statusVar, m.respHdr, m.respBodyVar, m.mode, ctx())
				return res
			}
		}
		// ---- what the call returns / the transaction records
		cur := itOf(tx.Interruption())
		if adopt {
			if m.interruption == nil && cur != nil && m.mode == "Off" && offOnly {
				// whatever the rest of the phase evaluates after a rule switched the
				// engine off: an engine that is Off interrupts nothing
				res.fail("C02", "off-interrupts", fpx(), "call %d (%s): a rule switched the engine Off and a later rule of the same phase interrupted the transaction: %v (returned %v)%s", ci, c.Op, cur, itOf(ret), ctx())
				return res
			}
			if m.interruption == nil {
				m.interruption = cur
			}
			if itx != nil && m.wouldBe == nil {
				m.wouldBe = itOf(itx.DetectionOnlyInterruption())
			}
			continue
		}
		bodyLimitIt := cur != nil && cur.RuleID == 0
		if bodyLimitIt && limited {
			if modeAtStart == "DetectionOnly" || sc.Mode == "DetectionOnly" && !m.ctlSeen {
				res.fail("C02", "detectiononly-interrupts", "body-limit/"+fpx(), "call %d (%s): engine is DetectionOnly but the transaction is interrupted by the body limit: %v%s", ci, c.Op, cur, ctx())
			}
			res.count("body_limit_interruptions", 1)
			break // body-limit interruption: rest unchecked (C10 covers the limit itself)
		}
		switch m.mode {
		case "On":
			var r *c02Rule
			if m.interruption != nil {
				r = rules[m.interruption.RuleID]
			}
			if !c02ItMatch(m.interruption, cur, r) {
				res.fail("C02", "recorded-interruption", fpx(), "after call %d (%s) the transaction records interruption %v, expected %v (the first disruptive rule that fired)%s", ci, c.Op, cur, m.interruption, ctx())
				return res
			}
			if hasRet && !c02ItMatch(m.interruption, itOf(ret), r) {
				res.fail("C02", "returned-interruption", c.Op+"/"+fpx(), "call %d (%s) returned %v, expected %v%s", ci, c.Op, itOf(ret), m.interruption, ctx())
				return res
			}
		case "DetectionOnly", "Off":
			if !m.adopted {
				if cur != nil && m.interruption == nil {
					res.fail("C02", "detectiononly-interrupts", fpx(), "after call %d (%s) the transaction is interrupted (%v) although the engine is %s%s", ci, c.Op, cur, m.mode, ctx())
					return res
				}
				if ret != nil && m.interruption == nil {
					res.fail("C02", "detectiononly-returns", c.Op+"/"+fpx(), "call %d (%s) returned interruption %v although the engine is %s%s", ci, c.Op, itOf(ret), m.mode, ctx())
					return res
				}
			}
			if m.mode == "DetectionOnly" && itx != nil && !m.adopted {
				wb := itOf(itx.DetectionOnlyInterruption())
				if limited && m.wouldBe == nil && wb != nil && wb.RuleID == 0 {
					// a body-limit rejection while a rule had switched the engine to
					// DetectionOnly is remembered as the would-be interruption (rule 0);
					// the limit itself is C10's subject
					m.wouldBe = wb
				}
				var r *c02Rule
				if m.wouldBe != nil {
					r = rules[m.wouldBe.RuleID]
				}
				if !c02ItMatch(m.wouldBe, wb, r) {
					res.fail("C02", "would-be-interruption", fpx(), "after call %d (%s) the remembered would-be interruption is %v, expected %v (the first)%s", ci, c.Op, wb, m.wouldBe, ctx())
					return res
				}
			}
		}
	}
	if sc.Mode == "Off" && !m.ctlSeen && len(h.ErrCB) > 0 {
		res.fail("C02", "off-callback", "Off", "engine Off but the error callback fired %d times", len(h.ErrCB))
	}
	if pan := safely(func() { tx.Close() }); pan != "" {
		res.fail("C02", "panic", "close", "Close panicked: %s", pan)
	}
	nran := 0
	for _, b := range m.ran {
		if b {
			nran++
		}
	}
	res.Nontrivial = nran >= 2
	if !sc.Canonical {
		res.count("anomalous_histories", 1)
	}
	res.count("mode_"+sc.Mode, 1)
	return res
}

func init() {
	register(&Check{
		ID: "C02", Level: "exploration", Run: c02Run,
		Runs:       [2]int{60000, 12000000},
		MaxSeconds: [2]int{90, 1500},
		Rule: "one run = 2-8 rules whose firing condition is a token the model can see (REQUEST_URI, REQUEST_HEADERS, REQUEST_BODY, RESPONSE_STATUS, RESPONSE_HEADERS, RESPONSE_BODY, SecAction) with deny|drop|redirect|pass, optional status, phases 1-5, engine On|DetectionOnly|Off, optionally one ctl:ruleEngine switch (after a switch to On or DetectionOnly the machine goes on predicting with the new mode, in the same phase too; only the rest of a phase after a switch to Off is taken as it happened), optionally small body limits, and in a quarter of the runs a predecessor transaction that fires every rule and is closed before the transaction under test takes the recycled object; " +
			"the canonical call list is delivered as is (1/3) or through an unreliable channel that drops, duplicates and reorders calls (<=24 delivered). After every call the reference phase machine checks: rules newly fired = exactly the visible rules of the phase the marker shows to have run, stopping at the first disruptive one when On; no phase 1-4 twice; nothing of phases 1-4 after an interruption; " +
			"the recorded and every returned interruption = the first disruptive rule that fired (id, action, status, target); DetectionOnly never returns or records one and remembers the first would-be one; Off evaluates nothing. non-trivial = at least two phases ran; distinct = scenario hash",
		Assumptions: []string{"drop without an explicit status is compared leniently (the statement gives it no default)",
			"rules of the same phase that follow a ctl:ruleEngine switch, phase-5 multiplicity under duplicated ProcessLogging and body-token rules under a small limit are not predicted"},
		Real:      []string{"transaction phase API, rule engine, disruptive actions, seclang parser"},
		Stub:      []string{"connector (unreliable call channel)", "clock", "random source", "file system"},
		Unchecked: []string{"rules following a ctl:ruleEngine switch inside the same phase", "whether a phase runs at all for an anomalous call order (only: at most once)", "calls after a body-limit interruption"},
		MustHit:   []string{"predecessor_runs", "ctl_switch_to_On", "ctl_switch_to_DetectionOnly", "anomalous_histories", "interruptions", "mode_On", "mode_DetectionOnly", "mode_Off", "unchecked_after_ctl_switch"},
	})
}
