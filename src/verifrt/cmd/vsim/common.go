package main

import (
	"bytes"
	"errors"
	"fmt"
	"io"
	"sort"
	"strings"

	coraza "github.com/corazawaf/coraza/v3"
	"github.com/corazawaf/coraza/v3/debuglog"
	"github.com/corazawaf/coraza/v3/experimental/plugins"
	"github.com/corazawaf/coraza/v3/experimental/plugins/plugintypes"
	"github.com/corazawaf/coraza/v3/types"
	"github.com/corazawaf/coraza/v3/verifrt"
)

// ---------------------------------------------------------------- simulated streams

var errInjectedRead = errors.New("injected read error")
var errInjectedWrite = errors.New("injected write error")

// simReader delivers data in scripted chunks.  chunks[i] is the maximum number
// of bytes returned by the i-th Read (0 = a legal (0,nil) read); after the
// script is exhausted reads are unbounded.  failAt >= 0 makes the reader return
// errInjectedRead once failAt bytes have been delivered.
type simReader struct {
	data   []byte
	pos    int
	chunks []int
	ci     int
	failAt int
	Reads  int
}

func (r *simReader) Read(p []byte) (int, error) {
	r.Reads++
	if r.failAt >= 0 && r.pos >= r.failAt {
		return 0, errInjectedRead
	}
	if r.pos >= len(r.data) {
		return 0, io.EOF
	}
	n := len(p)
	if r.ci < len(r.chunks) {
		if r.chunks[r.ci] < n {
			n = r.chunks[r.ci]
		}
		r.ci++
	}
	if n > len(r.data)-r.pos {
		n = len(r.data) - r.pos
	}
	if r.failAt >= 0 && r.pos+n > r.failAt {
		n = r.failAt - r.pos
	}
	copy(p, r.data[r.pos:r.pos+n])
	r.pos += n
	// a stream delivers its bytes and then the caller is descheduled: under the
	// seeded scheduler another task may run before the bytes are consumed
	verifrt.Y(siteSimReader)
	return n, nil
}

const siteSimReader = 48

// simLenReader additionally advertises its remaining length (like bytes.Reader).
type simLenReader struct{ simReader }

func (r *simLenReader) Len() int { return len(r.data) - r.pos }

func newReader(data []byte, chunks []int, failAt int, withLen bool) io.Reader {
	sr := simReader{data: data, chunks: chunks, failAt: failAt}
	if withLen {
		return &simLenReader{sr}
	}
	return &sr
}

// drain reads r to EOF with the given buffer sizes (cycled).
func drain(r io.Reader, sizes []int) ([]byte, error) {
	if len(sizes) > 0 && sizes[0] < 0 {
		// the way io.Copy drains: through WriterTo when the reader offers it
		var buf bytes.Buffer
		_, err := io.Copy(&buf, r)
		return buf.Bytes(), err
	}
	var out []byte
	if len(sizes) == 0 {
		sizes = []int{64}
	}
	for i := 0; i < 100000; i++ {
		sz := sizes[i%len(sizes)]
		if sz <= 0 {
			sz = 1
		}
		buf := make([]byte, sz)
		n, err := r.Read(buf)
		out = append(out, buf[:n]...)
		if err == io.EOF {
			return out, nil
		}
		if err != nil {
			return out, err
		}
	}
	return out, errors.New("reader did not terminate")
}

// ---------------------------------------------------------------- recording audit writer / logger

type recWriter struct {
	formatter plugintypes.AuditLogFormatter
	Records   []recRecord
	InitErr   error
	// FailAfterDelivery: the next n writes store the record and then report an error
	FailAfterDelivery int
	Failed            int
}

type recRecord struct {
	ID        string
	Formatted []byte
	Log       plugintypes.AuditLog
	RuleIDs   []int
}

func (w *recWriter) Init(c plugintypes.AuditLogConfig) error {
	w.formatter = c.Formatter
	return nil
}

func (w *recWriter) Write(al plugintypes.AuditLog) error {
	rec := recRecord{ID: al.Transaction().ID(), Log: al}
	for _, m := range al.Messages() {
		// Data() may be a typed nil inside a non-nil interface (messages that
		// only carry the error-log line): guard the dereference.
		func() {
			defer func() { recover() }()
			if d := m.Data(); d != nil {
				rec.RuleIDs = append(rec.RuleIDs, d.ID())
			}
		}()
	}
	if w.formatter != nil {
		b, err := w.formatter.Format(al)
		if err != nil {
			return err
		}
		rec.Formatted = append([]byte(nil), b...)
	}
	w.Records = append(w.Records, rec)
	if w.FailAfterDelivery > 0 {
		// injected fault: the record was delivered, the acknowledgement is lost
		w.FailAfterDelivery--
		w.Failed++
		return errors.New("simulated audit sink: record stored, acknowledgement lost")
	}
	return nil
}

func (w *recWriter) Close() error { return nil }

func init() {
	// no global registry of instances: the writer of a WAF is reached through
	// a transaction (Transaction.WAF.AuditLogWriter()), so that concurrent
	// builds in simulated tasks share nothing inside the harness
	plugins.RegisterAuditLogWriter("verifrec", func() plugintypes.AuditLogWriter { return &recWriter{} })
}

// wafHandle bundles a WAF with the observers attached to it.
type wafHandle struct {
	// Concurrent: the handle is shared by simulated tasks; the observers that
	// are not task-safe (error callback list, debug buffer, recording writer)
	// are switched off so that the harness itself cannot race.
	Concurrent bool
	WAF        coraza.WAF
	ErrCB      []cbRec      // error callback invocations
	DebugBuf   bytes.Buffer // debug log at Error level
	Rec        *recWriter   // set by runTx when the configuration uses SecAuditLogType verifrec
}

type cbRec struct {
	TxID   string
	RuleID int
}

// debugLevel is the level of the recording debug logger (Error by default;
// C20 lowers it to Warn so that a failure reported as a warning counts as visible).
var debugLevel = debuglog.LevelError

type closer interface{ Close() error }

func (h *wafHandle) Close() {
	if c, ok := h.WAF.(closer); ok {
		c.Close()
	}
}

// buildWAF compiles directives; panics are turned into errors tagged "PANIC".
func buildWAF(directives string) (h *wafHandle, err error) {
	h = &wafHandle{}
	defer func() {
		if r := recover(); r != nil {
			err = fmt.Errorf("PANIC in NewWAF: %v", r)
		}
	}()
	cfg := coraza.NewWAFConfig().
		WithDirectives(directives).
		WithErrorCallback(func(mr types.MatchedRule) {
			if h.Concurrent {
				return
			}
			h.ErrCB = append(h.ErrCB, cbRec{TxID: mr.TransactionID(), RuleID: mr.Rule().ID()})
		}).
		// a logger that already carries default fields, as integrations that tag
		// their log lines configure it (two With calls leave spare capacity in the
		// field buffer, which every transaction's logger is derived from)
		WithDebugLogger(debuglog.Default().WithOutput(&h.DebugBuf).WithLevel(debugLevel).With(debuglog.Str("component", "coraza-sim")).With(debuglog.Str("node", "n1")))
	w, err := coraza.NewWAF(cfg)
	if err != nil {
		return nil, err
	}
	h.WAF = w
	return h, nil
}

// ---------------------------------------------------------------- outcome helpers

type itRec struct {
	RuleID int    `json:"rule"`
	Action string `json:"action"`
	Status int    `json:"status"`
	Data   string `json:"data,omitempty"`
}

func itOf(it *types.Interruption) *itRec {
	if it == nil {
		return nil
	}
	return &itRec{RuleID: it.RuleID, Action: it.Action, Status: it.Status, Data: it.Data}
}

func (a *itRec) String() string {
	if a == nil {
		return "none"
	}
	return fmt.Sprintf("{rule %d %s %d %q}", a.RuleID, a.Action, a.Status, a.Data)
}

func itEq(a, b *itRec) bool {
	if a == nil || b == nil {
		return a == b
	}
	return *a == *b
}

// matchSummary: rule id -> sorted multiset of "VAR:key=value"
type matchSummary struct {
	Order []int            `json:"order"`
	Data  map[int][]string `json:"data"`
}

func summarise(mrs []types.MatchedRule) matchSummary {
	ms := matchSummary{Data: map[int][]string{}}
	for _, mr := range mrs {
		id := mr.Rule().ID()
		ms.Order = append(ms.Order, id)
		for _, md := range mr.MatchedDatas() {
			ms.Data[id] = append(ms.Data[id], fmt.Sprintf("%s:%s=%s", md.Variable().Name(), md.Key(), md.Value()))
		}
	}
	for id := range ms.Data {
		sort.Strings(ms.Data[id])
	}
	return ms
}

// valuesOf returns the matched values of rule id (in engine order).
func valuesOf(mrs []types.MatchedRule, id int) (vals []string, times int) {
	for _, mr := range mrs {
		if mr.Rule().ID() == id {
			times++
			for _, md := range mr.MatchedDatas() {
				vals = append(vals, md.Value())
			}
		}
	}
	return
}

func countRule(mrs []types.MatchedRule, id int) int {
	n := 0
	for _, mr := range mrs {
		if mr.Rule().ID() == id {
			n++
		}
	}
	return n
}

// safely runs f and converts a panic into a description.
func safely(f func()) (panicked string) {
	defer func() {
		if r := recover(); r != nil {
			panicked = fmt.Sprintf("%v\n%s", r, shortStack())
		}
	}()
	f()
	return ""
}

func shortStack() string {
	b := make([]byte, 16384)
	n := runtimeStack(b)
	lines := strings.Split(string(b[:n]), "\n")
	var keep []string
	for i := 0; i < len(lines); i++ {
		if strings.Contains(lines[i], "coraza/v3") && !strings.Contains(lines[i], "verifrt") {
			keep = append(keep, strings.TrimSpace(lines[i]))
			if i+1 < len(lines) {
				keep = append(keep, "    "+strings.TrimSpace(lines[i+1]))
			}
		}
		if len(keep) > 24 {
			break
		}
	}
	return strings.Join(keep, "\n")
}

// panicSite returns the innermost repository function of a panic stack, used
// in fingerprints.
func panicSite(stack string) string {
	for _, l := range strings.Split(stack, "\n") {
		l = strings.TrimSpace(l)
		if strings.HasPrefix(l, "github.com/corazawaf/coraza/v3/") && !strings.Contains(l, "verifrt") {
			l = strings.TrimPrefix(l, "github.com/corazawaf/coraza/v3/")
			if i := strings.LastIndex(l, "("); i > 0 {
				l = l[:i]
			}
			return l
		}
	}
	return "?"
}

func randBytes(t *verifrt.Tape, n int, alphabet string) []byte {
	b := make([]byte, n)
	for i := range b {
		b[i] = alphabet[t.Draw(len(alphabet))]
	}
	return b
}

func clip(s string, n int) string {
	if len(s) > n {
		return s[:n] + "..."
	}
	return s
}
