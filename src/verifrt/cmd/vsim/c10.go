package main

import (
	"bytes"
	"fmt"
	"io"
	"runtime"
	"strings"

	"github.com/corazawaf/coraza/v3/types"
	"github.com/corazawaf/coraza/v3/verifrt"
	"github.com/corazawaf/coraza/v3/verifrt/simos"
)

func runtimeStack(b []byte) int { return runtime.Stack(b, false) }

// C10 - body buffering is byte-faithful and limits are enforced exactly.
//
// Simulated: the body streams (chunking, short reads, (0,nil) reads, unknown
// length, read errors) and the spill disk.  Oracle: a reference buffer written
// from the property statement.

type c10Op struct {
	Kind   int    `json:"kind"` // 0 slice write, 1 reader with Len, 2 reader without Len, 3 the same wrapped in io.LimitReader with a generous cap (Cap bytes more than there are)
	Cap    int    `json:"cap,omitempty"`
	Data   []byte `json:"data"`
	Chunks []int  `json:"chunks,omitempty"`
	FailAt int    `json:"fail_at"`
}

type c10Side struct {
	Limit  int     `json:"limit"`
	Reject bool    `json:"reject"`
	Ops    []c10Op `json:"ops"`
}

type c10Scenario struct {
	Req       c10Side `json:"req"`
	Mem       int     `json:"mem_limit"`
	Resp      c10Side `json:"resp"`
	BPMode    int     `json:"bp_mode"` // 0 force variable, 1 content-type urlencoded, 2 ctl RAW, 3 none
	MimeOn    bool    `json:"mime_on"`
	Drain     []int   `json:"drain"`
	Faulty    bool    `json:"faulty"`
	ExplicitP bool    `json:"explicit_phase_calls"`
	// ReqCfgLimit > Req.Limit: SecRequestBodyLimit is ReqCfgLimit and a phase-1
	// ctl:requestBodyLimit lowers it to Req.Limit for this transaction
	ReqCfgLimit int `json:"req_configured_limit,omitempty"`
	// EarlyReader >= 0: a body reader is obtained after that many request body
	// operations (possibly before the body spills) and drained at the end
	EarlyReader int `json:"early_reader"`
	// Peek > 0: after every later body operation that many bytes are read from
	// the early reader (a connector peeking into the body while it still arrives)
	Peek int `json:"peek,omitempty"`
	// Predecessor: another transaction ran first on the same WAF (its object is
	// recycled) and lowered both body limits for itself by ctl
	Predecessor bool `json:"predecessor,omitempty"`
	// PredBody: size of the predecessor's request body (may spill); PredFault: a
	// disk fault on the spill file while the predecessor is closed (its Close
	// reports it; the recycled object must still count from zero)
	PredBody  int    `json:"predecessor_body,omitempty"`
	PredFault string `json:"predecessor_close_fault,omitempty"`
}

const c10Alphabet = "abcxyz&=%+ \n\x00\xff;"

func c10GenSide(t *verifrt.Tape, mem int, faulty bool, resp bool) c10Side {
	s := c10Side{Limit: t.Range(1, 64), Reject: t.Draw(2) == 1}
	if mem > s.Limit {
		mem = s.Limit
	}
	L := s.Limit
	targets := []int{L - 1, L, L + 1, mem - 1, mem, mem + 1, 2 * L, 0, t.Range(0, 160), L / 2}
	T := targets[t.Draw(len(targets))]
	if T < 0 {
		T = 0
	}
	k := t.Range(1, 5)
	rem := T
	for i := 0; i < k; i++ {
		sz := rem
		if i < k-1 {
			sz = t.Range(0, rem)
		}
		rem -= sz
		op := c10Op{Kind: t.Draw(4), Data: randBytes(t, sz, c10Alphabet), FailAt: -1}
		if op.Kind == 3 {
			op.Cap = []int{0, 1, 7, 100, 1 << 20}[t.Draw(5)]
		}
		if op.Kind != 0 {
			nc := t.Draw(4)
			for j := 0; j < nc; j++ {
				op.Chunks = append(op.Chunks, t.Draw(5)) // 0 = (0,nil) read
			}
			if faulty && t.Draw(3) == 0 {
				op.FailAt = t.Range(0, sz)
				if op.Kind == 3 && op.Cap == 0 {
					op.Cap = 1 // a cap equal to the data hides a failure that comes after the last byte
				}
			}
		}
		s.Ops = append(s.Ops, op)
	}
	// sometimes more traffic after the limit
	if t.Draw(3) == 0 {
		s.Ops = append(s.Ops, c10Op{Kind: t.Draw(3), Data: randBytes(t, t.Range(0, 8), c10Alphabet), FailAt: -1})
	}
	return s
}

func c10Gen(t *verifrt.Tape) *c10Scenario {
	sc := &c10Scenario{}
	sc.Faulty = t.Draw(4) == 0
	sc.Mem = t.Range(1, 64)
	sc.Req = c10GenSide(t, sc.Mem, sc.Faulty, false)
	if sc.Mem > sc.Req.Limit {
		sc.Mem = sc.Req.Limit
	}
	sc.Resp = c10GenSide(t, 1<<30, sc.Faulty, true)
	sc.BPMode = t.Draw(4)
	sc.MimeOn = t.Draw(4) != 0
	nd := t.Range(1, 3)
	for i := 0; i < nd; i++ {
		sc.Drain = append(sc.Drain, t.Range(1, 40))
	}
	if t.Draw(4) == 0 {
		sc.Drain = []int{-1} // drained with io.Copy (WriterTo if the reader has one)
	}
	sc.ExplicitP = t.Draw(8) != 0
	if t.Draw(4) == 0 {
		sc.ReqCfgLimit = sc.Req.Limit + 1 + t.Draw(40)
	}
	sc.EarlyReader = -1
	if t.Draw(3) == 0 {
		sc.EarlyReader = t.Draw(len(sc.Req.Ops) + 1)
		if t.Draw(2) == 0 {
			sc.Peek = 1 + t.Draw(8)
		}
	}
	sc.Predecessor = t.Draw(4) == 0
	if sc.Predecessor {
		sc.PredBody = 2
		if t.Draw(2) == 0 {
			sc.PredBody = 1 + t.Draw(40)
			sc.PredFault = pick(t, []string{"", "", "close-error", "remove-error"})
		}
	}
	return sc
}

func (sc *c10Scenario) directives(mem int) string {
	act := func(r bool) string {
		if r {
			return "Reject"
		}
		return "ProcessPartial"
	}
	cfgLimit := sc.Req.Limit
	if sc.ReqCfgLimit > 0 {
		cfgLimit = sc.ReqCfgLimit
	}
	d := fmt.Sprintf(`SecRuleEngine On
SecRequestBodyAccess On
SecRequestBodyLimit %d
SecRequestBodyInMemoryLimit %d
SecRequestBodyLimitAction %s
SecResponseBodyAccess On
SecResponseBodyLimit %d
SecResponseBodyLimitAction %s
SecResponseBodyMimeType text/plain
`, cfgLimit, mem, act(sc.Req.Reject), sc.Resp.Limit, act(sc.Resp.Reject))
	if sc.ReqCfgLimit > 0 {
		d += fmt.Sprintf("SecAction \"id:2,phase:1,pass,nolog,ctl:requestBodyLimit=%d\"\n", sc.Req.Limit)
	}
	switch sc.BPMode {
	case 0:
		d += "SecAction \"id:1,phase:1,pass,nolog,ctl:forceRequestBodyVariable=On\"\n"
	case 2:
		d += "SecAction \"id:1,phase:1,pass,nolog,ctl:requestBodyProcessor=RAW\"\n"
	}
	d += "SecRule REQUEST_URI \"@contains lowerlimits\" \"id:3,phase:1,pass,nolog,ctl:requestBodyLimit=3,ctl:responseBodyLimit=3\"\n"
	d += `SecRule REQUEST_BODY "@unconditionalMatch" "id:20,phase:2,pass,log"
SecAction "id:21,phase:2,pass,log"
SecRule INBOUND_DATA_ERROR "@eq 1" "id:22,phase:2,pass,log"
SecRule RESPONSE_BODY "@unconditionalMatch" "id:40,phase:4,pass,log"
SecAction "id:41,phase:4,pass,log"
SecRule OUTBOUND_DATA_ERROR "@eq 1" "id:42,phase:4,pass,log"
`
	return d
}

// c10Outcome is what one variant (memory / spill) observed.
type c10Outcome struct {
	Log      []string
	ReqBody  []byte
	RespBody []byte
	Spilled  bool
	Stopped  string // first error-returning call (fault mode)
}

type c10Model struct {
	stored      []byte
	rejected    bool
	limitHit    bool
	phaseRan    bool
	supplied    []byte
	errExpected bool
}

// apply predicts the effect of op; returns expected n (or -1 if unchecked),
// whether an interruption is expected and whether an error is expected.
func (m *c10Model) apply(op c10Op, L int, reject bool) (n int, interrupt bool, wantErr bool, noop bool) {
	if m.rejected {
		return -1, true, false, true
	}
	if len(m.stored) == L {
		return 0, false, false, true
	}
	data := op.Data
	m.supplied = append(m.supplied, data...)
	avail := L - len(m.stored)
	switch op.Kind {
	case 0, 1:
		take := len(data)
		if len(m.stored)+len(data) >= L {
			m.limitHit = true
			if reject {
				m.rejected = true
				return -1, true, false, false
			}
			take = avail
		}
		if op.Kind == 1 && op.FailAt >= 0 && op.FailAt < take {
			m.stored = append(m.stored, data[:op.FailAt]...)
			return op.FailAt, false, true, false
		}
		m.stored = append(m.stored, data[:take]...)
		if len(m.stored) == L && !reject {
			m.phaseRan = true
		}
		return take, false, false, false
	default:
		take := len(data)
		if take > avail {
			take = avail
		}
		if op.FailAt >= 0 && op.FailAt < avail {
			// the engine asks for `avail` bytes; the stream breaks before that
			m.stored = append(m.stored, data[:op.FailAt]...)
			return op.FailAt, false, true, false
		}
		m.stored = append(m.stored, data[:take]...)
		if len(m.stored) == L {
			m.limitHit = true
			if reject {
				m.rejected = true
				return -1, true, false, false
			}
			m.phaseRan = true
		}
		return take, false, false, false
	}
}

func c10Run(w *verifrt.World, tier Tier) *RunResult {
	res := &RunResult{}
	sc := c10Gen(w.Work)
	res.Sample = sc
	res.Hash = hash64(fmt.Sprintf("%+v", *sc))
	if sc.ReqCfgLimit > 0 {
		res.count("ctl_lowered_limit", 1)
	}
	memLimit := sc.Req.Limit
	if sc.ReqCfgLimit > 0 {
		memLimit = sc.ReqCfgLimit // "in memory" = in-memory limit equal to the configured limit
	}
	memOut := c10Exec(sc, memLimit, res, "mem")
	var spillOut *c10Outcome
	if len(res.Viol) == 0 {
		spillOut = c10Exec(sc, sc.Mem, res, "spill")
	}
	if memOut != nil && spillOut != nil && len(res.Viol) == 0 {
		if spillOut.Spilled {
			res.count("spill_happened", 1)
		}
		if len(memOut.Log) != len(spillOut.Log) {
			res.fail("C10", "mem-vs-disk", "log-length", "memory and spill variants made different observations:\nmem:   %v\nspill: %v", memOut.Log, spillOut.Log)
		} else {
			for i := range memOut.Log {
				if memOut.Log[i] != spillOut.Log[i] {
					res.fail("C10", "mem-vs-disk", "observation", "memory and spill variants differ at step %d:\nmem:   %s\nspill: %s", i, memOut.Log[i], spillOut.Log[i])
					break
				}
			}
		}
	}
	tot := 0
	for _, o := range sc.Req.Ops {
		tot += len(o.Data)
	}
	res.Nontrivial = tot >= sc.Mem-1 || tot >= sc.Req.Limit-1

	// an interleaved pair (an eighth of the runs): this scenario and a second one,
	// each on its own WAF, as two tasks under the seeded scheduler with a yield
	// after every read of a simulated stream - what the body entry points share
	// beyond one transaction (pooled copy buffers) must keep their bytes apart;
	// the same call-by-call model decides
	if len(res.Viol) == 0 && w.Work.Draw(8) == 0 {
		sc2 := c10Gen(w.Work)
		sc2.Predecessor, sc2.PredFault = false, ""
		scs := []*c10Scenario{sc, sc2}
		mems := []int{sc.Mem, sc2.Mem}
		var fns []func()
		for i := range scs {
			i := i
			fns = append(fns, func() { c10Exec(scs[i], mems[i], res, fmt.Sprintf("interleaved%d", i)) })
		}
		w.PoolPolicy = verifrt.PoolLIFO
		sch := verifrt.NewSched(w.Sch, []int{verifrt.PolicyRandom, verifrt.PolicyRandom, verifrt.PolicyPCT}[w.Sch.Draw(3)])
		sch.RunLen = []int{1, 1, 2, 3, 6}[w.Sch.Draw(5)]
		tasks := sch.Run(fns)
		res.Interleave = sch.TraceHash
		res.count("interleaved_pairs", 1)
		res.count("context_switches", int64(sch.Switches))
		if sch.Deadlock || sch.Overrun {
			res.Tainted = true
			res.fail("C10", "deadlock", "interleaved", "two interleaved transactions did not finish (deadlock=%v, step budget exceeded=%v)", sch.Deadlock, sch.Overrun)
		}
		for _, tk := range tasks {
			if tk.Panic != nil {
				res.Tainted = true
				res.fail("C10", "panic", "interleaved/"+panicSite(tk.Stack), "task %d panicked: %v\n%s", tk.ID, tk.Panic, clip(tk.Stack, 1500))
			}
		}
		if !res.Tainted {
			c10LeakCheck(res, "interleaved")
		}
	}
	return res
}

func c10Exec(sc *c10Scenario, mem int, res *RunResult, variant string) *c10Outcome {
	out := &c10Outcome{}
	disk := simos.Disk()
	opsBefore := len(disk.Ops)
	h, err := buildWAF(sc.directives(mem))
	if err != nil {
		res.fail("C10", "build", "waf-build", "configuration rejected: %v\n%s", err, sc.directives(mem))
		return nil
	}
	defer h.Close()
	if sc.Predecessor {
		// limits changed by ctl belong to that transaction only
		if p := safely(func() {
			pt := h.WAF.NewTransactionWithID("c10-pred")
			pt.ProcessURI("/lowerlimits", "POST", "HTTP/1.1")
			pt.ProcessRequestHeaders()
			pt.WriteRequestBody([]byte(strings.Repeat("ab", 20)[:sc.PredBody]))
			pt.ProcessRequestBody()
			pt.ProcessLogging()
			if sc.PredFault != "" {
				fired := false
				disk.Decide = func(op *simos.Op) string {
					if !fired && faultApplies(sc.PredFault, op.Kind) {
						fired = true
						res.count("predecessor_close_faults", 1)
						return sc.PredFault
					}
					return ""
				}
			}
			pt.Close()
			disk.Decide = nil
			if sc.PredFault != "" {
				// what the injected fault legitimately left behind is not the
				// next transaction's business
				for _, f := range disk.Files() {
					simos.Remove(f)
				}
			}
		}); p != "" {
			res.fail("C10", "panic", "predecessor", "predecessor transaction panicked: %s", p)
			return nil
		}
		res.count("predecessor_runs", 1)
	}
	tx := h.WAF.NewTransactionWithID("c10")
	fp := func(side string) string {
		a := "partial"
		if (side == "req" && sc.Req.Reject) || (side == "resp" && sc.Resp.Reject) {
			a = "reject"
		}
		return side + "/" + a
	}
	logf := func(format string, a ...any) { out.Log = append(out.Log, fmt.Sprintf(format, a...)) }
	var pan string
	closeTx := func() {
		if p := safely(func() { tx.ProcessLogging(); tx.Close() }); p != "" {
			res.fail("C10", "panic", "close", "panic in ProcessLogging/Close: %s", p)
		}
	}

	pan = safely(func() {
		tx.ProcessConnection("10.0.0.1", 1234, "10.0.0.2", 80)
		tx.ProcessURI("/c10", "POST", "HTTP/1.1")
		tx.AddRequestHeader("Host", "example.com")
		switch sc.BPMode {
		case 1:
			tx.AddRequestHeader("Content-Type", "application/x-www-form-urlencoded")
		case 2, 3:
			tx.AddRequestHeader("Content-Type", "text/plain")
		}
		if it := tx.ProcessRequestHeaders(); it != nil {
			res.fail("C10", "unexpected-interruption", "phase1", "phase 1 interrupted: %v", itOf(it))
		}
	})
	if pan != "" {
		res.fail("C10", "panic", "phase1", "%s", pan)
		return nil
	}

	// ---- request body
	m := &c10Model{}
	L := sc.Req.Limit
	stopped := false
	var early io.Reader
	takeEarly := func(i int) {
		if sc.EarlyReader == i && early == nil {
			if p := safely(func() { early, _ = tx.RequestBodyReader() }); p != "" {
				res.fail("C10", "panic", "early-reader", "RequestBodyReader panicked: %s", p)
			}
		}
	}
	var peeked []byte
	peek := func() {
		if early == nil || sc.Peek == 0 {
			return
		}
		buf := make([]byte, sc.Peek)
		if p := safely(func() {
			n, _ := early.Read(buf)
			peeked = append(peeked, buf[:n]...)
		}); p != "" {
			res.fail("C10", "panic", "early-reader-peek", "reading %d bytes from an early reader panicked: %s", sc.Peek, p)
		}
	}
	for i, op := range sc.Req.Ops {
		peek()
		takeEarly(i)
		if m.rejected {
			break
		}
		before := len(m.stored)
		wn, wantIt, wantErr, noop := m.apply(op, L, sc.Req.Reject)
		var it *types.Interruption
		var n int
		var err error
		pan = safely(func() {
			switch op.Kind {
			case 0:
				it, n, err = tx.WriteRequestBody(op.Data)
			case 1:
				it, n, err = tx.ReadRequestBodyFrom(newReader(op.Data, op.Chunks, op.FailAt, true))
			case 3:
				it, n, err = tx.ReadRequestBodyFrom(io.LimitReader(newReader(op.Data, op.Chunks, op.FailAt, false), int64(len(op.Data)+op.Cap)))
			default:
				it, n, err = tx.ReadRequestBodyFrom(newReader(op.Data, op.Chunks, op.FailAt, false))
			}
		})
		if pan != "" {
			res.fail("C10", "panic", fp("req"), "request body op %d (%+v) panicked: %s", i, op, pan)
			return nil
		}
		logf("req op %d: it=%v n=%d err=%v", i, itOf(it), n, err != nil)
		if wantErr {
			if err == nil {
				res.fail("C10", "stream-error-swallowed", fp("req"), "request body op %d: the reader failed after %d bytes but the call returned no error (n=%d)", i, op.FailAt, n)
			}
			res.count("fault_reader_error_fired", 1)
			out.Stopped = fmt.Sprintf("req op %d", i)
			stopped = true
			break
		}
		if err != nil {
			res.fail("C10", "unexpected-error", fp("req"), "request body op %d (kind %d, %d bytes, stored before %d, limit %d) returned error %v", i, op.Kind, len(op.Data), before, L, err)
			return nil
		}
		if wantIt {
			if it == nil || it.Status != 413 {
				res.fail("C10", "reject-status", "req", "request body reached the limit (%d stored + %d supplied, limit %d, Reject) but the call returned %v, want a 413 interruption", before, len(op.Data), L, itOf(it))
			}
			res.count("reject_fired", 1)
		} else {
			if it != nil {
				res.fail("C10", "spurious-interruption", fp("req"), "request body op %d: %d stored + %d supplied < limit %d (or ProcessPartial) but the call returned interruption %v", i, before, len(op.Data), L, itOf(it))
			}
			if wn >= 0 && n != wn {
				res.fail("C10", "returned-n", fp("req"), "request body op %d (kind %d): returned n=%d, want %d (stored before %d, supplied %d, limit %d, noop=%v)", i, op.Kind, n, wn, before, len(op.Data), L, noop)
			}
		}
	}
	if m.limitHit {
		res.count("req_limit_hit", 1)
	}
	if stopped {
		closeTx()
		c10LeakCheck(res, variant)
		return out
	}
	if !m.rejected {
		if sc.ExplicitP || !m.phaseRan {
			var it *types.Interruption
			var err error
			if pan = safely(func() { it, err = tx.ProcessRequestBody() }); pan != "" {
				res.fail("C10", "panic", fp("req"), "ProcessRequestBody panicked: %s", pan)
				return nil
			}
			logf("ProcessRequestBody: it=%v err=%v", itOf(it), err != nil)
			if it != nil || err != nil {
				res.fail("C10", "phase2-result", fp("req"), "ProcessRequestBody returned (%v, %v), want (nil, nil)", itOf(it), err)
			}
		}
		mrs := tx.MatchedRules()
		if c := countRule(mrs, 21); c != 1 {
			res.fail("C10", "phase2-count", fp("req"), "the request body phase ran %d times, want exactly once (limit %d, stored %d, partial-triggered=%v)", c, L, len(m.stored), m.phaseRan)
		}
		if sc.BPMode != 3 && len(m.stored) > 0 {
			vals, _ := valuesOf(mrs, 20)
			if len(vals) != 1 || vals[0] != string(m.stored) {
				res.fail("C10", "REQUEST_BODY", fp("req")+"/"+variant, "REQUEST_BODY seen by rules = %q, want %q (supplied %q, limit %d, in-memory limit %d)", vals, m.stored, m.supplied, L, mem)
			}
			logf("REQUEST_BODY=%q", vals)
		}
		ide := countRule(mrs, 22) > 0
		if ide != m.limitHit {
			res.fail("C10", "INBOUND_DATA_ERROR", fp("req"), "INBOUND_DATA_ERROR=1 seen: %v, body reached the limit: %v", ide, m.limitHit)
		}
	}
	takeEarly(len(sc.Req.Ops))
	if early != nil && !stopped {
		var got []byte
		var rerr error
		if p := safely(func() {
			got, rerr = drain(early, sc.Drain)
			got = append(append([]byte(nil), peeked...), got...)
		}); p != "" {
			res.fail("C10", "panic", "early-reader/"+variant, "draining a reader obtained after %d body operations panicked: %s", sc.EarlyReader, p)
			return nil
		}
		res.count("early_readers", 1)
		if rerr != nil {
			res.fail("C10", "reader-error", "early-reader/"+variant, "a reader obtained after %d body operations failed: %v", sc.EarlyReader, rerr)
		} else if m.rejected {
			if len(got) > L || !bytes.HasPrefix(m.supplied, got) {
				res.fail("C10", "reader-content", "early-reader/reject/"+variant, "reader obtained after %d operations holds %q: not a prefix of %q within the limit %d", sc.EarlyReader, got, m.supplied, L)
			}
		} else if !bytes.Equal(got, m.stored) {
			res.fail("C10", "reader-content", "early-reader/"+variant, "a reader obtained after %d body operations (in-memory limit %d, limit %d) returned %q, want %q", sc.EarlyReader, mem, L, got, m.stored)
		}
		logf("early reader: %q", got)
	}
	// readers: two independent ones
	for r := 0; r < 2; r++ {
		var got []byte
		var rerr error
		pan = safely(func() {
			rd, err := tx.RequestBodyReader()
			if err != nil {
				rerr = err
				return
			}
			got, rerr = drain(rd, sc.Drain)
		})
		if pan != "" {
			res.fail("C10", "panic", fp("req"), "draining the request body reader panicked: %s", pan)
			return nil
		}
		if rerr != nil {
			res.fail("C10", "reader-error", fp("req")+"/"+variant, "request body reader failed without any injected fault: %v", rerr)
			return nil
		}
		if m.rejected {
			if len(got) > L || !bytes.HasPrefix(m.supplied, got) {
				res.fail("C10", "reader-content", "req/reject/"+variant, "after a rejection the reader holds %q: not a prefix of the supplied bytes %q within the limit %d", got, m.supplied, L)
			}
		} else if !bytes.Equal(got, m.stored) {
			res.fail("C10", "reader-content", fp("req")+"/"+variant, "request body reader returned %q, want %q (limit %d, in-memory limit %d, drain sizes %v)", got, m.stored, L, mem, sc.Drain)
		}
		logf("req reader %d: %q", r, got)
		out.ReqBody = got
	}
	for _, o := range disk.Ops[opsBefore:] {
		if o.Kind == "create" && len(o.Path) > 0 && bytes.Contains([]byte(o.Path), []byte("/body")) {
			out.Spilled = true
		}
	}

	// ---- response
	if !m.rejected {
		rm := &c10Model{}
		RL := sc.Resp.Limit
		pan = safely(func() {
			if sc.MimeOn {
				tx.AddResponseHeader("Content-Type", "text/plain")
			} else {
				tx.AddResponseHeader("Content-Type", "application/octet-stream")
			}
			if it := tx.ProcessResponseHeaders(200, "HTTP/1.1"); it != nil {
				res.fail("C10", "unexpected-interruption", "phase3", "phase 3 interrupted: %v", itOf(it))
			}
		})
		if pan != "" {
			res.fail("C10", "panic", "phase3", "%s", pan)
			return nil
		}
		for i, op := range sc.Resp.Ops {
			if rm.rejected {
				break
			}
			before := len(rm.stored)
			wn, wantIt, wantErr, noop := rm.apply(op, RL, sc.Resp.Reject)
			var it *types.Interruption
			var n int
			var err error
			pan = safely(func() {
				switch op.Kind {
				case 0:
					it, n, err = tx.WriteResponseBody(op.Data)
				case 1:
					it, n, err = tx.ReadResponseBodyFrom(newReader(op.Data, op.Chunks, op.FailAt, true))
				case 3:
					it, n, err = tx.ReadResponseBodyFrom(io.LimitReader(newReader(op.Data, op.Chunks, op.FailAt, false), int64(len(op.Data)+op.Cap)))
				default:
					it, n, err = tx.ReadResponseBodyFrom(newReader(op.Data, op.Chunks, op.FailAt, false))
				}
			})
			if pan != "" {
				res.fail("C10", "panic", fp("resp"), "response body op %d (%+v) panicked: %s", i, op, pan)
				return nil
			}
			logf("resp op %d: it=%v n=%d err=%v", i, itOf(it), n, err != nil)
			if wantErr {
				if err == nil {
					res.fail("C10", "stream-error-swallowed", fp("resp"), "response body op %d: the reader failed after %d bytes but the call returned no error (n=%d)", i, op.FailAt, n)
				}
				res.count("fault_reader_error_fired", 1)
				stopped = true
				break
			}
			if err != nil {
				res.fail("C10", "unexpected-error", fp("resp"), "response body op %d (kind %d, %d bytes, stored before %d, limit %d) returned error %v", i, op.Kind, len(op.Data), before, RL, err)
				return nil
			}
			if wantIt {
				if it == nil || it.Status != 500 {
					res.fail("C10", "reject-status", "resp", "response body reached the limit (%d stored + %d supplied, limit %d, Reject) but the call returned %v, want a 500 interruption", before, len(op.Data), RL, itOf(it))
				}
				res.count("reject_fired", 1)
			} else {
				if it != nil {
					res.fail("C10", "spurious-interruption", fp("resp"), "response body op %d: %d stored + %d supplied, limit %d: unexpected interruption %v", i, before, len(op.Data), RL, itOf(it))
				}
				if wn >= 0 && n != wn {
					res.fail("C10", "returned-n", fp("resp"), "response body op %d (kind %d): returned n=%d, want %d (stored before %d, supplied %d, limit %d, noop=%v)", i, op.Kind, n, wn, before, len(op.Data), RL, noop)
				}
			}
		}
		if rm.limitHit {
			res.count("resp_limit_hit", 1)
		}
		if stopped {
			closeTx()
			c10LeakCheck(res, variant)
			return out
		}
		if !rm.rejected {
			if sc.ExplicitP || !rm.phaseRan {
				var it *types.Interruption
				var err error
				if pan = safely(func() { it, err = tx.ProcessResponseBody() }); pan != "" {
					res.fail("C10", "panic", fp("resp"), "ProcessResponseBody panicked: %s", pan)
					return nil
				}
				logf("ProcessResponseBody: it=%v err=%v", itOf(it), err != nil)
				if it != nil || err != nil {
					res.fail("C10", "phase4-result", fp("resp"), "ProcessResponseBody returned (%v, %v), want (nil, nil)", itOf(it), err)
				}
			}
			mrs := tx.MatchedRules()
			if c := countRule(mrs, 41); c != 1 {
				res.fail("C10", "phase4-count", fp("resp"), "the response body phase ran %d times, want exactly once (limit %d, stored %d)", c, RL, len(rm.stored))
			}
			if sc.MimeOn {
				vals, _ := valuesOf(mrs, 40)
				if len(vals) != 1 || vals[0] != string(rm.stored) {
					res.fail("C10", "RESPONSE_BODY", fp("resp"), "RESPONSE_BODY seen by rules = %q, want %q (supplied %q, limit %d)", vals, rm.stored, rm.supplied, RL)
				}
				logf("RESPONSE_BODY=%q", vals)
			}
			ode := countRule(mrs, 42) > 0
			if ode != rm.limitHit {
				res.fail("C10", "OUTBOUND_DATA_ERROR", fp("resp"), "OUTBOUND_DATA_ERROR=1 seen: %v, body reached the limit: %v", ode, rm.limitHit)
			}
		}
		var got []byte
		var rerr error
		pan = safely(func() {
			var rd io.Reader
			rd, rerr = tx.ResponseBodyReader()
			if rerr == nil {
				got, rerr = drain(rd, sc.Drain)
			}
		})
		if pan != "" {
			res.fail("C10", "panic", fp("resp"), "draining the response body reader panicked: %s", pan)
			return nil
		}
		if rerr != nil {
			res.fail("C10", "reader-error", fp("resp"), "response body reader failed without any injected fault: %v", rerr)
		} else if rm.rejected {
			if len(got) > RL || !bytes.HasPrefix(rm.supplied, got) {
				res.fail("C10", "reader-content", "resp/reject", "after a rejection the response reader holds %q: not a prefix of %q within the limit %d", got, rm.supplied, RL)
			}
		} else if !bytes.Equal(got, rm.stored) {
			res.fail("C10", "reader-content", fp("resp"), "response body reader returned %q, want %q (limit %d)", got, rm.stored, RL)
		}
		logf("resp reader: %q", got)
		out.RespBody = got
	}
	closeTx()
	if !strings.HasPrefix(variant, "interleaved") {
		// interleaved tasks share the simulated disk: checked once after both
		c10LeakCheck(res, variant)
	}
	return out
}

func c10LeakCheck(res *RunResult, variant string) {
	if strings.HasPrefix(variant, "interleaved") && variant != "interleaved" {
		return // interleaved tasks share the simulated disk: checked once after both
	}
	for _, f := range simos.Disk().Files() {
		res.fail("C10", "temp-file-left", variant, "file %s still exists after Close", f)
	}
}

func init() {
	register(&Check{
		ID: "C10", Level: "exploration", Run: c10Run,
		Runs:       [2]int{60000, 6000000},
		MaxSeconds: [2]int{60, 1200},
		Rule: "one run = one generated (request limit L in 1..64, in-memory limit M<=L, response limit, Reject|ProcessPartial each side, body-processor mode, MIME on/off list) " +
			"and 1-6 body operations per side over WriteXBody / ReadXBodyFrom (reader with Len, without Len, chunk scripts incl. (0,nil) reads, optional read error at byte k), total size drawn around L-1,L,L+1,M-1,M,M+1,2L; " +
			"each scenario executes twice (M=L in memory, M small spilling to the simulated disk) and every return value, REQUEST_BODY/RESPONSE_BODY, *_DATA_ERROR, phase count and two independent readers are compared with a reference buffer. " +
			"non-trivial = total request bytes within 1 of M or L or beyond; distinct = distinct scenario hash",
		Assumptions: []string{
			"engine On; the limit of a transaction is SecRequestBodyLimit or, in 1/4 of the runs, a lower value set in phase 1 by ctl:requestBodyLimit",
			"after a Reject the exact stored length between 'before the rejecting call' and the limit, and the n returned by the rejecting call, are not compared",
			"after a call returned an injected stream error only no-panic and temp-file cleanup are checked",
		},
		Real:      []string{"coraza transaction API, BodyBuffer, body processors (urlencoded, raw), rule engine, collections"},
		Stub:      []string{"file system (simos in-memory disk)", "body streams (scripted readers)", "clock", "random id source"},
		Unchecked: []string{"stored length / n of the rejecting call", "anything after an injected stream error except panic-freedom and cleanup", "ctl-changed response limits"},
		MustHit:   []string{"interleaved_pairs", "predecessor_runs", "predecessor_close_faults", "early_readers", "ctl_lowered_limit", "spill_happened", "req_limit_hit", "resp_limit_hit", "reject_fired", "fault_reader_error_fired"},
	})
}
