package main

import (
	"encoding/json"
	"fmt"
	"reflect"
	"regexp"
	"strings"

	"github.com/corazawaf/coraza/v3/debuglog"
	corazahttp "github.com/corazawaf/coraza/v3/http"
	"github.com/corazawaf/coraza/v3/verifrt"
	"github.com/corazawaf/coraza/v3/verifrt/simos"
)

// C20 - failures are reported, never swallowed, and no temporary files are left.
//
// Fault enumeration over the simulated disk: for each generated transaction a
// fault-free run records the disk operation log (N operations) and the API
// call list (K calls); then every operation fails in turn with every fault
// kind applicable to it, and the transaction is abandoned after every call.

type c20Scenario struct {
	Config   string    `json:"config"`
	Script   *TxScript `json:"script"`
	Probe    *TxScript `json:"probe"`
	Writer   string    `json:"audit_writer"`
	KeepMode string    `json:"keep_files"`
	Multi    []int     `json:"multi_fault,omitempty"`
	ReqLimit int       `json:"request_body_limit"`
}

type c20Exec struct {
	BuildErr  string
	Out       *Outcome
	Probe     *Outcome
	Left      []string
	Fired     string
	FiredOp   simos.Op
	Ops       []simos.Op
	TxOpBase  int
	DebugMsgs int
	Dump      map[string]string
	// PairShared: two transactions alive at the same time after the scenario
	// (and a second Close of its transaction) are one object
	PairShared bool
	// AuditStarts: number of records begun in the serial audit log / index
	// lines in the concurrent writer's index for this one transaction
	AuditStarts int
}

var c20ErrVars = []string{"REQBODY_ERROR", "REQBODY_PROCESSOR_ERROR", "MULTIPART_STRICT_ERROR", "INBOUND_DATA_ERROR", "OUTBOUND_DATA_ERROR", "URLENCODED_ERROR"}

// message variables: dumped too, used to tell a new failure from one the
// fault-free run already reported
var c20MsgVars = []string{"REQBODY_ERROR_MSG", "REQBODY_PROCESSOR_ERROR_MSG"}

func c20Gen(t *verifrt.Tape) (*c20Scenario, *Config) {
	o := genOpts{MaxRules: 4, Phases: []int{1, 2, 2, 3, 4, 5}, Disruptive: 8, Response: true, LogFlags: true, Chains: false}
	cfg := genConfig(t, &o)
	cfg.Engine = "On"
	cfg.ReqAccess = true
	cfg.RespAccess = t.Draw(2) == 0
	cfg.ReqLimit = 16 + t.Draw(384)
	cfg.ReqMem = 1 + t.Draw(24)
	cfg.ReqReject = t.Draw(2) == 0
	cfg.UploadDir = simos.Root + "/upload"
	sc := &c20Scenario{}
	sc.KeepMode = pick(t, []string{"Off", "Off", "On", "RelevantOnly"})
	cfg.KeepFiles = sc.KeepMode
	sc.Writer = pick(t, []string{"Serial", "Concurrent", "Serial", "none"})
	if sc.Writer != "none" {
		cfg.Lines = append(cfg.Lines,
			"SecAuditEngine On",
			"SecAuditLogType "+sc.Writer,
			"SecAuditLog "+simos.Root+"/audit/audit.log",
			"SecAuditLogStorageDir "+simos.Root+"/audit/data",
			"SecAuditLogParts "+pick(t, []string{"ABCFHKZ", "ABCDEFGHIJKZ", "AHZ"}),
			"SecAuditLogFormat "+pick(t, []string{"JSON", "Native"}),
		)
	}
	cfg.Rules = append(cfg.Rules,
		RuleSpec{ID: 301, Phase: 2, Targets: []TargetSpec{{Var: "REQUEST_BODY"}, {Var: "FILES"}, {Var: "ARGS_POST"}}, Op: "@contains tok1", Log: "log"},
	)
	ro := &reqOpts{Body: true, Response: true, Uploads: true, JSON: true, MaxArgs: 5}
	sc.Script = genScript(t, ro, "c20")
	for i := 0; sc.Script.BodyKind == "" && i < 8; i++ {
		sc.Script = genScript(t, ro, "c20")
	}
	if sc.Script.BodyKind == "" {
		sc.Script.Method, sc.Script.BodyKind, sc.Script.ContentType = "POST", "urlencoded", "application/x-www-form-urlencoded"
		sc.Script.Body = []byte("a=tok1&b=0123456789012345678901234567890123456789")
	}
	if t.Draw(5) == 0 {
		// the engine is switched off (or to DetectionOnly) by a rule after the body
		// was stored: cleanup and reporting do not depend on the engine mode
		cfg.Lines = append(cfg.Lines, fmt.Sprintf("SecAction \"id:302,phase:%d,pass,nolog,ctl:ruleEngine=%s\"", []int{2, 2, 3, 5}[t.Draw(4)], pick(t, []string{"Off", "Off", "DetectionOnly"})))
	}
	if t.Draw(12) == 0 {
		// a response body larger than anything a pooled buffer is likely to keep
		cfg.RespAccess = true
		sc.Script.RespHeaders = append(sc.Script.RespHeaders, Header{"Content-Type", "text/plain"})
		sc.Script.RespBody = []byte(strings.Repeat("0123456789abcdef", 4500+t.Draw(2000)))
	}
	sc.ReqLimit = cfg.ReqLimit
	if t.Draw(3) == 0 {
		// body over the limit, written in slices one of which ends exactly on the limit
		for len(sc.Script.Body) <= cfg.ReqLimit {
			sc.Script.Body = append(sc.Script.Body, []byte("&pad=0123456789abcdefghijklmnopqrstuvwxyz")...)
		}
		first := 1 + t.Draw(cfg.ReqLimit-1)
		sc.Script.BodyReader = 0
		sc.Script.BodyChunks = []int{first, cfg.ReqLimit - first, 1 + t.Draw(8), 1 + t.Draw(40)}
	}
	sc.Probe = genScript(t, &reqOpts{Body: true, MaxArgs: 3}, "probe")
	sc.Config = cfg.Text() + fmt.Sprintf("SecRule %s \"@unconditionalMatch\" \"id:9991,phase:5,pass,nolog\"\n", strings.Join(append(append([]string{}, c20ErrVars...), c20MsgVars...), "|"))
	return sc, cfg
}

// c20Execute runs the scenario once on a fresh disk.  decide chooses faults;
// stopAfter abandons the transaction after that many calls (-1 = complete).
func c20Execute(w *verifrt.World, sc *c20Scenario, decide func(d *simos.FS, base int, op *simos.Op) string, stopAfter int, withProbe bool) *c20Exec {
	ex := &c20Exec{}
	disk := simos.ResetDisk()
	disk.MkdirAllQuiet(simos.Root + "/upload")
	disk.MkdirAllQuiet(simos.Root + "/audit/data")
	w.PoolPolicy = verifrt.PoolLIFO
	h, err := buildWAF(sc.Config)
	if err != nil {
		ex.BuildErr = err.Error()
		return ex
	}
	defer h.Close()
	ex.TxOpBase = len(disk.Ops)
	base := ex.TxOpBase
	if decide != nil {
		disk.Decide = func(op *simos.Op) string {
			f := decide(disk, base, op)
			if f != "" && ex.Fired == "" {
				ex.Fired = f
				ex.FiredOp = *op
			}
			return f
		}
	}
	s := *sc.Script
	s.StopAfter = stopAfter
	// the usual connector pattern: an explicit Close whose error is logged plus a
	// deferred one
	s.DoubleClose = true
	ex.Out = runTx(h, &s)
	disk.Decide = nil
	ex.DebugMsgs = ex.Out.DebugErrors
	ex.Ops = append([]simos.Op(nil), disk.Ops...)
	if len(ex.Ops) > 0 && ex.Fired != "" && ex.FiredOp.Idx < len(ex.Ops) {
		ex.FiredOp = ex.Ops[ex.FiredOp.Idx]
	}
	for _, f := range disk.Files() {
		if strings.HasPrefix(f, simos.Root+"/audit/") {
			continue
		}
		ex.Left = append(ex.Left, f)
	}
	if b, err := simos.ReadFile(simos.Root + "/audit/audit.log"); err == nil {
		for _, l := range strings.Split(string(b), "\n") {
			switch {
			case sc.Writer == "Serial" && (strings.HasPrefix(l, "{\"transaction\"") || nativeMarkerA.MatchString(l)):
				ex.AuditStarts++
			case sc.Writer == "Concurrent" && strings.Contains(l, " - - ["):
				ex.AuditStarts++
			}
		}
	}
	ex.Dump = map[string]string{}
	for _, d := range ex.Out.Data[9991] {
		k, v, _ := strings.Cut(d, ":=")
		ex.Dump[k] = v
	}
	for k, v := range ex.Out.ErrVars {
		// read directly as well: the dumping rule does not run once a rule has
		// switched the engine off
		if _, ok := ex.Dump[k]; !ok {
			ex.Dump[k] = v
		}
	}
	if withProbe {
		ex.Probe = runTx(h, sc.Probe)
		safely(func() {
			a := h.WAF.NewTransactionWithID("pairA")
			b := h.WAF.NewTransactionWithID("pairB")
			ex.PairShared = ifacePtr(a) == ifacePtr(b)
			a.Close()
			if !ex.PairShared {
				b.Close()
			}
		})
	}
	return ex
}

var nativeMarkerA = regexp.MustCompile(`^--[A-Za-z0-9]{4,}-A--$`)

func c20FaultKinds(opKind string) []string {
	switch opKind {
	case "create":
		return []string{"create-fail"}
	case "open":
		return []string{"open-fail"}
	case "write":
		return []string{"write-error", "short-write"}
	case "read":
		return []string{"read-error", "short-read"}
	case "close":
		return []string{"close-error"}
	case "remove":
		return []string{"remove-error"}
	case "mkdir":
		return []string{"mkdir-error"}
	}
	return nil
}

func opRole(p string) string {
	switch {
	case strings.Contains(p, "/tmp/body"):
		return "body-spill"
	case strings.Contains(p, "crzmp"):
		return "upload"
	case strings.Contains(p, "/audit/"):
		return "audit"
	}
	return "other"
}

func c20Run(w *verifrt.World, tier Tier) *RunResult {
	res := &RunResult{}
	debugLevel = debuglog.LevelWarn
	defer func() { debugLevel = debuglog.LevelError }()
	sc, _ := c20Gen(w.Work)
	res.Sample = sc
	js, _ := json.Marshal(sc)
	res.Hash = hash64(string(js))
	if w.Work.Draw(4) == 0 {
		c20HTTP(w, sc, res)
		return res
	}
	res.count("direct_api_scenarios", 1)

	base := c20Execute(w, sc, nil, -1, true)
	if base.BuildErr != "" {
		if strings.HasPrefix(base.BuildErr, "PANIC") {
			res.fail("C20", "build-panic", "newwaf", "%s\n%s", base.BuildErr, sc.Config)
		}
		res.count("config_rejected", 1)
		return res
	}
	if base.Out.Panic != "" {
		res.fail("C20", "panic", "fault-free/"+panicSite(base.Out.Panic), "fault-free run panicked in %s: %s\n%s", base.Out.PanicStep, base.Out.Panic, sc.Config)
		return res
	}
	// fresh-WAF reference for the probe
	probeRef := func() *Outcome {
		simos.ResetDisk().MkdirAllQuiet(simos.Root + "/upload")
		simos.Disk().MkdirAllQuiet(simos.Root + "/audit/data")
		w.PoolPolicy = verifrt.PoolNew
		h, err := buildWAF(sc.Config)
		if err != nil {
			return nil
		}
		defer h.Close()
		return runTx(h, sc.Probe)
	}()
	keep := sc.KeepMode == "On" || (sc.KeepMode == "RelevantOnly" && len(base.Out.ErrCB) > 0)
	checkLeft := func(ex *c20Exec, what string, fp string) {
		if len(ex.Left) == 0 {
			return
		}
		var bad []string
		for _, f := range ex.Left {
			if opRole(f) == "upload" && (sc.KeepMode == "On" || (sc.KeepMode == "RelevantOnly" && len(ex.Out.ErrCB) > 0)) {
				// retention applies: always, or because a rule with logging
				// enabled matched in this very execution
				continue
			}
			if ex.Fired == "remove-error" && ex.FiredOp.Path == f {
				continue
			}
			bad = append(bad, f)
		}
		if len(bad) > 0 {
			res.fail("C20", "temp-file-left", fp+"/"+opRole(bad[0]), "%s: after Close these files created for the transaction remain: %v (keep-files %s)\nconfiguration:\n%s\nrequest body kind %s, %d bytes", what, bad, sc.KeepMode, sc.Config, sc.Script.BodyKind, len(sc.Script.Body))
		}
	}
	checkProbe := func(ex *c20Exec, what, fp string) {
		if ex.Probe == nil || probeRef == nil {
			return
		}
		if ex.PairShared {
			res.fail("C20", "recycled-object-shared", fp, "%s (Close called twice, as with an explicit plus a deferred Close): afterwards two transactions alive at the same time are the same object", what)
		}
		if clause, detail := c05Diff(probeRef, ex.Probe); clause != "" {
			res.fail("C20", "recycled-object-differs", fp+"/"+clause, "%s: a probe transaction on the recycled object differs from the same probe on a fresh WAF: %s", what, detail)
		}
	}
	_ = keep
	// ---- a body over the limit must surface (interruption, error variable,
	// returned error or log entry) however the slices fall
	if len(sc.Script.Body) > sc.ReqLimit && sc.Script.BodyKind != "" && (base.Out.Interrupted == nil || base.Out.Interrupted.RuleID == 0) {
		nw := 0
		for _, st := range base.Out.Steps {
			if strings.HasPrefix(st, "WriteRequestBody") || strings.HasPrefix(st, "ReadRequestBodyFrom") {
				nw++
			}
		}
		res.count("over_limit_bodies", 1)
		if nw > 0 && base.Out.Interrupted == nil && base.Dump["INBOUND_DATA_ERROR"] != "1" && len(base.Out.ErrSteps) == 0 && base.Out.DebugErrors == 0 {
			res.fail("C20", "over-limit-swallowed", fmt.Sprintf("reader%d", sc.Script.BodyReader), "a request body of %d bytes with SecRequestBodyLimit %d (slices %v) was processed without interruption, INBOUND_DATA_ERROR, returned error or log entry: calls %v\nconfiguration:\n%s", len(sc.Script.Body), sc.ReqLimit, sc.Script.BodyChunks, base.Out.Steps, sc.Config)
		}
	}
	if base.AuditStarts > 1 {
		res.fail("C20", "audit-record-repeated", "fault-free", "fault-free run: the audit log holds %d records (or index lines) for the one transaction\nconfiguration:\n%s", base.AuditStarts, sc.Config)
	}
	if base.AuditStarts == 1 {
		res.count("audit_records_counted", 1)
	}
	checkLeft(base, "fault-free run", "fault-free")
	checkProbe(base, "fault-free run", "fault-free")
	txOps := base.Ops[base.TxOpBase:]
	res.count("disk_ops_in_baseline", int64(len(txOps)))
	if len(txOps) > 0 {
		res.Nontrivial = true
	}

	// ---- every single operation failing in turn
	points := 0
	for i, op := range txOps {
		for _, kind := range c20FaultKinds(op.Kind) {
			idx, k := i, kind
			ex := c20Execute(w, sc, func(d *simos.FS, b int, o *simos.Op) string {
				if o.Idx-b == idx && faultApplies(k, o.Kind) {
					return k
				}
				return ""
			}, -1, true)
			points++
			if ex.BuildErr != "" {
				continue
			}
			if ex.Fired == "" {
				res.count("fault_point_not_reached", 1)
				continue
			}
			res.count("fault_"+k, 1)
			role := opRole(ex.FiredOp.Path)
			what := fmt.Sprintf("disk operation %d (%s %s) failing with %s", idx, op.Kind, op.Path, k)
			fp := k + "/" + role
			if ex.Out.Panic != "" {
				res.fail("C20", "panic", fp+"/"+panicSite(ex.Out.Panic), "%s: panic in %s: %s", what, ex.Out.PanicStep, ex.Out.Panic)
				continue
			}
			if k == "short-read" {
				// a short read is legal behaviour, not a failure: nothing may change
				if clause, detail := c05Diff(base.Out, ex.Out); clause != "" {
					res.fail("C20", "short-read-changes-outcome", role+"/"+clause, "%s: outcome differs from the fault-free run: %s", what, detail)
				}
			} else {
				// (b) the failure must be visible
				visible := ""
				switch {
				case len(ex.Out.ErrSteps) > len(base.Out.ErrSteps):
					visible = "returned error"
				case ex.Out.CloseErr != "":
					visible = "Close error"
				case ex.DebugMsgs > base.DebugMsgs:
					visible = "log entry"
				}
				msgDiffers := false
				for _, v := range c20MsgVars {
					if ex.Dump[v] != base.Dump[v] {
						msgDiffers = true
					}
				}
				for _, v := range c20ErrVars {
					// an error variable that reads 1 is a visible report if the
					// fault-free run did not set it, or set it with another message
					// (the request was already malformed and now fails differently)
					if ex.Dump[v] == "1" && (base.Dump[v] != "1" || msgDiffers) {
						visible = "error variable " + v
					}
				}
				if visible == "" {
					res.fail("C20", "failure-swallowed", fp, "%s: no API call returned an error, no error variable changed and nothing was logged (calls: %v)\nconfiguration:\n%s\nrequest body kind %s, %d bytes", what, ex.Out.Steps, sc.Config, sc.Script.BodyKind, len(sc.Script.Body))
				} else {
					res.count("visible_via_"+strings.Fields(visible)[0], 1)
				}
			}
			checkLeft(ex, what, k)
			checkProbe(ex, what, k)
			if ex.AuditStarts > 1 {
				res.fail("C20", "audit-record-repeated", fp, "%s: the audit log holds %d records (or index lines) for the one transaction; a failed write is reported, not repeated\nconfiguration:\n%s", what, ex.AuditStarts, sc.Config)
			}
		}
	}
	res.count("fault_points", int64(points))

	// ---- every early-termination point
	ncalls := len(base.Out.Steps)
	for k := 0; k <= ncalls; k++ {
		ex := c20Execute(w, sc, nil, k, true)
		if ex.BuildErr != "" {
			continue
		}
		res.count("early_termination_points", 1)
		what := fmt.Sprintf("transaction abandoned after %d of %d calls, then Close", k, ncalls)
		if ex.Out.Panic != "" {
			res.fail("C20", "panic", "abandon/"+panicSite(ex.Out.Panic), "%s: panic in %s: %s", what, ex.Out.PanicStep, ex.Out.Panic)
			continue
		}
		checkLeft(ex, what, "abandon")
		checkProbe(ex, what, "abandon")
	}

	// ---- thorough: random multi-fault sequences combined with early termination
	if tier == Thorough && len(txOps) > 0 {
		ft := w.Fault
		for rep := 0; rep < 6; rep++ {
			rate := 4 + ft.Draw(12)
			stop := -1
			if ft.Draw(3) == 0 {
				stop = ft.Draw(ncalls + 1)
			}
			n := 0
			ex := c20Execute(w, sc, func(d *simos.FS, b int, o *simos.Op) string {
				kinds := c20FaultKinds(o.Kind)
				if len(kinds) == 0 || ft.Draw(rate) != 0 {
					return ""
				}
				n++
				return kinds[ft.Draw(len(kinds))]
			}, stop, true)
			if ex.BuildErr != "" {
				continue
			}
			res.count("multi_fault_runs", 1)
			res.count("multi_fault_faults", int64(n))
			if ex.Out.Panic != "" {
				res.fail("C20", "panic", "multi/"+panicSite(ex.Out.Panic), "random multi-fault run: panic in %s: %s", ex.Out.PanicStep, ex.Out.Panic)
				continue
			}
			checkProbe(ex, "random multi-fault run", "multi")
		}
	}
	return res
}

var _ = reflect.DeepEqual

func init() {
	register(&Check{
		ID: "C20", Level: "fault_enumeration", Run: c20Run,
		Runs:       [2]int{1200, 150000},
		MaxSeconds: [2]int{100, 1500},
		Rule: "one run = one generated transaction (body larger than the in-memory limit so it spills, urlencoded / multipart with 0-3 files / JSON / raw, keep-files Off|On|RelevantOnly, serial or concurrent audit writer on the simulated disk, optional interruption) enumerated exhaustively: " +
			"a fault-free execution records the disk operation log and the API call list; then EVERY disk operation of the transaction fails in turn with EVERY applicable kind (create-fail, open-fail, write-error, short-write, read-error, short-read, close-error, remove-error, mkdir-error) and the transaction is abandoned after EVERY call; thorough adds random multi-fault sequences. " +
			"Oracle: no panic; the failure is visible (a call returns an error, an error variable changes, Close fails, or a warn/error log entry appears); a legal short read changes nothing; after Close no file created for the transaction remains (unless retention is configured or the fault is the failing remove); a probe on the recycled object equals the probe on a fresh WAF, and two transactions alive at the same time afterwards are two objects (every scenario closes its transaction twice, as an explicit plus a deferred Close do); in the fault-free execution a body over SecRequestBodyLimit surfaces (interruption, INBOUND_DATA_ERROR, returned error or log entry) however the slices fall - a third of the scenarios write such a body with one slice ending exactly on the limit. " +
			"non-trivial = the transaction performed at least one disk operation; distinct = scenario hash. Within one scenario the enumeration of single faults and termination points is exhaustive",
		Assumptions: []string{"operations performed while the WAF is constructed (writability probe, opening the audit log) are configuration-time and not fault points",
			"a failure reported at warn level counts as visible", "outcomes under two or more simultaneous faults are only checked for panic-freedom and a working recycled object"},
		Real:      []string{"BodyBuffer, multipart/urlencoded/JSON processors, Transaction.Close, serial and concurrent audit writers with real log.Logger, formatters"},
		Stub:      []string{"file system (simos) with per-operation fault points", "clock", "random source", "sync.Pool policy"},
		Unchecked: []string{"wording of error messages", "multi-fault outcomes beyond panic-freedom and recycled-object equality", "torn / lost writes and dirty restart: coraza recovers nothing from disk"},
		MustHit:   []string{"direct_api_scenarios", "middleware_scenarios", "middleware_fault_points", "fault_create-fail", "fault_write-error", "fault_short-write", "fault_read-error", "fault_close-error", "fault_remove-error", "fault_mkdir-error", "early_termination_points", "multi_fault_runs", "over_limit_bodies"},
	})
}

// ---------------------------------------------------------------- through the net/http middleware

type c20HTTPExec struct {
	BuildErr string
	Panic    string
	Invoked  bool
	Status   int
	Body     string
	Logs     int
	Left     []string
	Fired    string
	FiredOp  simos.Op
	Ops      []simos.Op
	Base     int
	Probe    *Outcome
	LogText  string
	ReadErr  bool // the handler got an error while reading the request body
}

func c20ExecHTTP(w *verifrt.World, sc *c20Scenario, decide func(d *simos.FS, base int, op *simos.Op) string) *c20HTTPExec {
	ex := &c20HTTPExec{}
	disk := simos.ResetDisk()
	disk.MkdirAllQuiet(simos.Root + "/upload")
	disk.MkdirAllQuiet(simos.Root + "/audit/data")
	w.PoolPolicy = verifrt.PoolLIFO
	h, err := buildWAF(sc.Config)
	if err != nil {
		ex.BuildErr = err.Error()
		return ex
	}
	defer h.Close()
	ex.Base = len(disk.Ops)
	base := ex.Base
	if decide != nil {
		disk.Decide = func(op *simos.Op) string {
			f := decide(disk, base, op)
			if f != "" && ex.Fired == "" {
				ex.Fired = f
				ex.FiredOp = *op
			}
			return f
		}
	}
	hs := &c18Scenario{Flusher: true, ReaderFrom: true, DownFail: -1, ClientFail: -1, URI: sc.Script.URI, Body: string(sc.Script.Body), KnownLen: true,
		Handler: []c18Op{{Op: "read", N: -1}, {Op: "hdr", K: "Content-Type", V: "text/plain"}, {Op: "write", Data: "handler says ok"}}}
	obs := &c18HandlerObs{}
	down, ww := hs.newDown()
	req := hs.request()
	req.Header.Set("Content-Type", sc.Script.ContentType)
	for _, hd := range sc.Script.Headers {
		if hd.K != "Host" {
			req.Header.Add(hd.K, hd.V)
		}
	}
	logsBefore := h.DebugBuf.Len()
	ex.Panic = safely(func() { corazahttp.WrapHandler(h.WAF, hs.handler(obs)).ServeHTTP(ww, req) })
	disk.Decide = nil
	r := c18Collect(down, obs)
	ex.Invoked, ex.Status, ex.Body, ex.ReadErr = obs.Invoked, r.Status, r.Body, obs.ReadErr
	ex.LogText = h.DebugBuf.String()[logsBefore:]
	ex.Logs = strings.Count(ex.LogText, "\n")
	ex.Ops = append([]simos.Op(nil), disk.Ops...)
	if ex.Fired != "" && ex.FiredOp.Idx < len(ex.Ops) {
		ex.FiredOp = ex.Ops[ex.FiredOp.Idx]
	}
	for _, f := range disk.Files() {
		if !strings.HasPrefix(f, simos.Root+"/audit/") {
			ex.Left = append(ex.Left, f)
		}
	}
	if ex.Panic == "" {
		ex.Probe = runTx(h, sc.Probe)
	}
	return ex
}

func c20HTTP(w *verifrt.World, sc *c20Scenario, res *RunResult) {
	res.count("middleware_scenarios", 1)
	base := c20ExecHTTP(w, sc, nil)
	if base.BuildErr != "" {
		res.count("config_rejected", 1)
		return
	}
	if base.Panic != "" {
		res.fail("C20", "panic", "http/fault-free/"+panicSite(base.Panic), "fault-free request through the middleware panicked: %s\n%s", base.Panic, sc.Config)
		return
	}
	probeRef := func() *Outcome {
		simos.ResetDisk().MkdirAllQuiet(simos.Root + "/upload")
		simos.Disk().MkdirAllQuiet(simos.Root + "/audit/data")
		w.PoolPolicy = verifrt.PoolNew
		h, err := buildWAF(sc.Config)
		if err != nil {
			return nil
		}
		defer h.Close()
		return runTx(h, sc.Probe)
	}()
	check := func(ex *c20HTTPExec, what, fp string) {
		var bad []string
		for _, f := range ex.Left {
			if opRole(f) == "upload" && (sc.KeepMode == "On" || sc.KeepMode == "RelevantOnly") {
				continue
			}
			if ex.Fired == "remove-error" && ex.FiredOp.Path == f {
				continue
			}
			bad = append(bad, f)
		}
		if len(bad) > 0 {
			res.fail("C20", "temp-file-left", "http/"+fp+"/"+opRole(bad[0]), "%s (through the middleware): files created for the request remain: %v (keep-files %s)\nconfiguration:\n%s", what, bad, sc.KeepMode, sc.Config)
		}
		if ex.Probe != nil && probeRef != nil {
			if clause, detail := c05Diff(probeRef, ex.Probe); clause != "" {
				res.fail("C20", "recycled-object-differs", "http/"+fp+"/"+clause, "%s (through the middleware): a probe on the recycled object differs from a fresh WAF: %s", what, detail)
			}
		}
	}
	check(base, "fault-free request", "fault-free")
	txOps := base.Ops[base.Base:]
	if len(txOps) > 0 {
		res.Nontrivial = true
	}
	for i, op := range txOps {
		for _, kind := range c20FaultKinds(op.Kind) {
			idx, k := i, kind
			ex := c20ExecHTTP(w, sc, func(d *simos.FS, b int, o *simos.Op) string {
				if o.Idx-b == idx && faultApplies(k, o.Kind) {
					return k
				}
				return ""
			})
			res.count("fault_points", 1)
			if ex.BuildErr != "" || ex.Fired == "" {
				continue
			}
			res.count("fault_"+k, 1)
			res.count("middleware_fault_points", 1)
			role := opRole(ex.FiredOp.Path)
			what := fmt.Sprintf("disk operation %d (%s %s) failing with %s", idx, op.Kind, op.Path, k)
			if ex.Panic != "" {
				res.fail("C20", "panic", "http/"+k+"/"+role+"/"+panicSite(ex.Panic), "%s (through the middleware): panic: %s", what, ex.Panic)
				continue
			}
			if k == "short-read" {
				if ex.Status != base.Status || ex.Body != base.Body || ex.Invoked != base.Invoked {
					res.fail("C20", "short-read-changes-outcome", "http/"+role, "%s (through the middleware): client received %d %q, fault-free %d %q", what, ex.Status, ex.Body, base.Status, base.Body)
				}
			} else if !c20NewLogLine(base.LogText, ex.LogText) && ex.Status == base.Status && ex.Invoked == base.Invoked && !ex.ReadErr {
				res.fail("C20", "failure-swallowed", "http/"+k+"/"+role, "%s (through the middleware): nothing was logged and the client received the same response (%d) as without the failure\nlog with fault: %q\nlog without: %q\nops: %v\nconfiguration:\n%s\nrequest body kind %s, %d bytes", what, ex.Status, ex.LogText, base.LogText, ex.Ops[ex.Base:], sc.Config, sc.Script.BodyKind, len(sc.Script.Body))
			}
			check(ex, what, k)
		}
	}
}

var c20LogNoise = regexp.MustCompile(`^\S+ \S+ |tx_id="[^"]*" ?`)

// c20NewLogLine reports whether the faulty run logged a line (timestamps and
// transaction ids stripped) that the fault-free run did not.
func c20NewLogLine(base, got string) bool {
	seen := map[string]int{}
	for _, l := range strings.Split(base, "\n") {
		seen[c20LogNoise.ReplaceAllString(l, "")]++
	}
	for _, l := range strings.Split(got, "\n") {
		k := c20LogNoise.ReplaceAllString(l, "")
		if k == "" {
			continue
		}
		if seen[k] == 0 {
			return true
		}
		seen[k]--
	}
	return false
}
