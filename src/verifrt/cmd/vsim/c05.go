package main

import (
	"encoding/json"
	"fmt"
	"io"
	"reflect"
	"sort"
	"strings"

	"github.com/corazawaf/coraza/v3/verifrt"
	"github.com/corazawaf/coraza/v3/verifrt/simos"
)

// C05 - transactions are isolated from earlier transactions on the same WAF.
//
// Simulated: histories.  1-3 predecessor transactions (matches, interruptions,
// body spilled to the simulated disk, ctl changes, pending skip / skipAfter /
// allow, captures, omitted ProcessLogging, double Close, reader held across
// Close, abandonment after any call, optionally disk faults) followed by a
// probe, on a WAF whose simulated pool hands the probe the object the
// predecessor used.  Reference: the same probe on a fresh WAF.

var c05Opts = genOpts{
	MaxRules: 7, Phases: []int{1, 1, 2, 2, 3, 4, 5}, Disruptive: 6, Flow: true, Ctl: true, Dyn: true, Chains: true,
	Response: true, Capture: true, MultiMatch: true, LogFlags: true, Exclusions: true, RegexKeys: true, Counts: true,
	EngineModes: []string{"On", "On", "On", "DetectionOnly"},
}

// every variable a rule can read, except clock-derived ones, the process
// environment and temp-file names (which legitimately differ)
const c05DumpVars = "ARGS|ARGS_NAMES|ARGS_GET|ARGS_POST|ARGS_PATH|REQUEST_HEADERS|REQUEST_HEADERS_NAMES|REQUEST_COOKIES|REQUEST_COOKIES_NAMES|" +
	"FILES|FILES_NAMES|FILES_SIZES|FILES_TMP_CONTENT|MULTIPART_FILENAME|MULTIPART_NAME|MULTIPART_PART_HEADERS|MATCHED_VARS|MATCHED_VARS_NAMES|MATCHED_VAR|MATCHED_VAR_NAME|" +
	"GEO|RESPONSE_HEADERS|RESPONSE_HEADERS_NAMES|RESPONSE_ARGS|RULE|" +
	"REQBODY_ERROR|REQBODY_ERROR_MSG|REQBODY_PROCESSOR|REQBODY_PROCESSOR_ERROR|MULTIPART_STRICT_ERROR|MULTIPART_DATA_AFTER|INBOUND_DATA_ERROR|OUTBOUND_DATA_ERROR|URLENCODED_ERROR|" +
	"HIGHEST_SEVERITY|REQUEST_BODY|REQUEST_BODY_LENGTH|RESPONSE_BODY|RESPONSE_STATUS|RESPONSE_PROTOCOL|RESPONSE_CONTENT_TYPE|RESPONSE_CONTENT_LENGTH|STATUS_LINE|" +
	"FILES_COMBINED_SIZE|ARGS_COMBINED_SIZE|FULL_REQUEST_LENGTH|SERVER_NAME|SERVER_ADDR|SERVER_PORT|REMOTE_ADDR|REMOTE_PORT|REMOTE_HOST|" +
	"REQUEST_URI|REQUEST_URI_RAW|REQUEST_LINE|REQUEST_METHOD|REQUEST_PROTOCOL|REQUEST_FILENAME|REQUEST_BASENAME|QUERY_STRING|RES_BODY_PROCESSOR|UNIQUE_ID"

type c05Scenario struct {
	Config       string      `json:"config"`
	Predecessors []*TxScript `json:"predecessors"`
	Probe        *TxScript   `json:"probe"`
	FaultAt      int         `json:"fault_at"`
	FaultKind    string      `json:"fault_kind,omitempty"`
}

func c05Config(t *verifrt.Tape) *Config {
	cfg := genConfig(t, &c05Opts)
	cfg.ReqLimit = 16 + t.Draw(100)
	cfg.ReqMem = 1 + t.Draw(cfg.ReqLimit)
	cfg.ReqReject = t.Draw(2) == 0
	cfg.RespLimit = 16 + t.Draw(100)
	cfg.RespReject = t.Draw(3) == 0
	cfg.ReqAccess = t.Draw(5) != 0
	cfg.RespAccess = t.Draw(2) == 0
	cfg.UploadDir = simos.Root + "/upload"
	if t.Draw(3) == 0 {
		cfg.ArgLimit = 1 + t.Draw(6) // within reach of the names a short history uses
	}
	ae := pick(t, []string{"On", "RelevantOnly", "Off"})
	cfg.Lines = append(cfg.Lines,
		"SecAuditEngine "+ae,
		"SecAuditLogType verifrec",
		"SecAuditLog "+simos.Root+"/audit.log",
		"SecAuditLogParts "+pick(t, []string{"ABCFHKZ", "ABKZ", "AHZ", "ABCDEFGHIJKZ"}),
		"SecAuditLogFormat "+pick(t, []string{"JSON", "Native"}),
		"SecAuditLogRelevantStatus \"^[45]\"",
	)
	return cfg
}

func c05Run(w *verifrt.World, tier Tier) *RunResult {
	res := &RunResult{}
	t := w.Work
	cfg := c05Config(t)
	cfg.Lines = append(cfg.Lines, "SecDataset ds1 `\nevil\nfoo\n`")
	// rules whose per-transaction state (target removals on a rule with
	// configured exclusions, rule removal by tag, captures) a predecessor can set
	// by hitting a URI token while the probe does not
	// override mode (a quarter of the runs): one ctl action fires only for requests
	// that carry X-Pred (every predecessor, never the probe), and witness rules
	// make every kind of override visible on the probe (body limits, body access,
	// engine, audit settings, body processor, rule and target removals)
	override := t.Draw(4) == 0
	ovr := ""
	if override {
		cfg.ReqAccess, cfg.RespAccess = true, true
		ctl := pick(t, []string{
			"requestBodyLimit=5", "requestBodyLimit=3", "responseBodyLimit=7", "responseBodyLimit=2", "requestBodyAccess=Off", "responseBodyAccess=Off",
			"ruleEngine=Off", "ruleEngine=DetectionOnly", "auditEngine=Off", "auditEngine=On", "auditEngine=RelevantOnly", "auditLogParts=+E", "auditLogParts=-H", "auditLogParts=-B",
			"forceRequestBodyVariable=On", "forceResponseBodyVariable=On", "requestBodyProcessor=JSON", "requestBodyProcessor=XML", "requestBodyProcessor=MULTIPART", "responseBodyProcessor=JSON",
			"ruleRemoveById=9972", "ruleRemoveById=9970-9974", "ruleRemoveByTag=ovr", "ruleRemoveByMsg=ovr", "ruleRemoveTargetById=9972;ARGS_POST", "ruleRemoveTargetById=9974;ARGS:a",
			"ruleRemoveTargetByTag=ovr;ARGS_POST:a", "ruleRemoveTargetByMsg=ovr;ARGS_GET", "hashEngine=On", "hashEnforcement=On", "debugLogLevel=9",
		})
		// one to three overrides, in phase 1 or later (after the request body was
		// buffered); the first is the drawn one, the others are removals and engine
		// switches, which compose with everything
		ovr = fmt.Sprintf("SecRule REQUEST_HEADERS:X-Pred \"@streq 1\" \"id:9970,phase:%d,pass,nolog,ctl:%s\"\n", []int{1, 1, 2, 3}[t.Draw(4)], ctl)
		for k, n := 0, t.Draw(3); k < n; k++ {
			ovr += fmt.Sprintf("SecRule REQUEST_HEADERS:X-Pred \"@streq 1\" \"id:%d,phase:%d,pass,nolog,ctl:%s\"\n", 9969-k, []int{1, 2, 2, 3, 5}[t.Draw(5)],
				pick(t, []string{"ruleRemoveById=9971", "ruleRemoveById=9974", "ruleRemoveByTag=ovr", "ruleRemoveByTag=t1", "ruleRemoveByMsg=ovr", "ruleEngine=Off", "ruleEngine=DetectionOnly", "ruleRemoveTargetById=9972;ARGS_GET", "auditEngine=Off"}))
		}
		ovr +=
			"SecRule REQUEST_BODY \"@rx .\" \"id:9971,phase:2,pass,nolog,tag:'ovr',msg:'ovr'\"\n" +
				"SecRule ARGS_POST|ARGS_GET \"@rx .\" \"id:9972,phase:2,pass,nolog,tag:'ovr',msg:'ovr'\"\n" +
				"SecRule RESPONSE_BODY \"@rx .\" \"id:9973,phase:4,pass,nolog,tag:'ovr'\"\n" +
				"SecRule ARGS \"@rx (?i)evil\" \"id:9974,phase:2,deny,status:403,log,auditlog,tag:'ovr',msg:'ovr'\"\n"
		res.count("override_runs", 1)
	}
	text := cfg.Text() + ovr + strings.Join(c06Special(t), "\n") + "\n" + fmt.Sprintf("SecRule %s \"@unconditionalMatch\" \"id:9991,phase:5,pass,nolog\"\n", c05DumpVars)
	ro := &reqOpts{Body: true, Response: true, Uploads: true, JSON: true, MaxArgs: 5, Abandon: true}
	np := 1 + t.Draw(3)
	sc := &c05Scenario{Config: text, FaultAt: -1}
	for i := 0; i < np; i++ {
		sc.Predecessors = append(sc.Predecessors, genScript(t, ro, fmt.Sprintf("pred%d", i)))
	}
	ro.Abandon = false
	sc.Probe = genScript(t, ro, "probe")
	if override {
		for _, p := range sc.Predecessors {
			p.Headers = append(p.Headers, Header{"X-Pred", "1"})
		}
		if sc.Probe.BodyKind == "" {
			sc.Probe.Method, sc.Probe.BodyKind, sc.Probe.ContentType = "POST", "urlencoded", "application/x-www-form-urlencoded"
			sc.Probe.Body = []byte("a=EVIL&b=xy1")
			sc.Probe.BodyChunks = nil
		}
		if len(sc.Probe.RespBody) == 0 {
			sc.Probe.RespBody = []byte("response tok1")
		}
	}
	if t.Draw(4) == 0 {
		sc.FaultAt = t.Draw(12)
		sc.FaultKind = pick(t, []string{"create-fail", "write-error", "short-write", "read-error", "close-error", "remove-error", "remove-error", "close-error"})
		if t.Draw(2) == 0 {
			// a Close that failed, then a second Close of the same transaction
			last := sc.Predecessors[len(sc.Predecessors)-1]
			last.DoubleClose, last.StopAfter, last.NoLogging = true, -1, false
		}
	}
	res.Sample = sc
	js, _ := json.Marshal(sc)
	res.Hash = hash64(string(js))

	// reference: fresh WAF, fresh object
	w.PoolPolicy = verifrt.PoolNew
	simos.Disk().MkdirAllQuiet(simos.Root + "/upload")
	href, err := buildWAF(text)
	if err != nil {
		if strings.HasPrefix(err.Error(), "PANIC") {
			res.fail("C05", "build-panic", "newwaf", "%v\n%s", err, text)
		}
		res.count("config_rejected", 1)
		return res
	}
	ref := runTx(href, sc.Probe)
	href.Close()

	// history on a long-lived WAF with object recycling
	w.PoolPolicy = verifrt.PoolLIFO
	reuseBefore := w.PoolReuse
	h, err := buildWAF(text)
	if err != nil {
		res.fail("C05", "build-differs", "newwaf", "second build of the same configuration failed: %v", err)
		return res
	}
	defer h.Close()
	disk := simos.Disk()
	faultFired := false
	var lateReaders []io.Reader
	for i, p := range sc.Predecessors {
		base := len(disk.Ops)
		filesBefore := disk.Files()
		if sc.FaultAt >= 0 && i == len(sc.Predecessors)-1 {
			disk.Decide = func(op *simos.Op) string {
				if op.Idx-base == sc.FaultAt && faultApplies(sc.FaultKind, op.Kind) {
					faultFired = true
					return sc.FaultKind
				}
				return ""
			}
		}
		po := runTx(h, p)
		disk.Decide = nil
		lateReaders = append(lateReaders, po.heldLate...)
		if po.Panic != "" {
			res.fail("C05", "predecessor-panic", panicSite(po.Panic), "predecessor %d panicked in %s: %s\nconfiguration:\n%s", i, po.PanicStep, po.Panic, text)
			return res
		}
		if p.HoldReader && po.HeldReader != "" && po.HeldReader != `"" err=false` {
			res.fail("C05", "reader-after-close", "held-reader", "a request body reader obtained before Close still yields data after Close: %s", po.HeldReader)
		}
		if !faultFired {
			// cleanup under disk faults is C20's clause, not C05's
			left := diffFiles(filesBefore, disk.Files())
			if len(left) > 0 {
				res.fail("C05", "temp-file-left", tmpKind(left[0]), "files created by predecessor %d still exist after its Close: %v (fault injected: %v %s)", i, left, faultFired, sc.FaultKind)
			}
		}
		if len(disk.Ops) > base {
			res.count("predecessor_used_disk", 1)
		}
		if po.Interrupted != nil {
			res.count("predecessor_interrupted", 1)
		}
	}
	if faultFired {
		res.count("fault_"+sc.FaultKind, 1)
	}
	// a bystander transaction stays alive while the probe runs: two live
	// transactions must be two objects whatever the predecessors did (a
	// predecessor closed twice must not put its object into the pool twice)
	byRun := func(hh *wafHandle, between func()) (out string) {
		if p := safely(func() {
			by := hh.WAF.NewTransactionWithID("bystander")
			by.ProcessURI("/bystander?a=tok1&b=evil", "GET", "HTTP/1.1")
			by.AddRequestHeader("Host", "bystander")
			it1 := by.ProcessRequestHeaders()
			between()
			it2, _ := by.ProcessRequestBody()
			ms := summarise(by.MatchedRules())
			out = fmt.Sprintf("id=%s p1=%v p2=%v fired=%v data=%v", by.ID(), itOf(it1), itOf(it2), ms.Order, ms.Data)
			by.ProcessLogging()
			by.Close()
		}); p != "" {
			out = "PANIC " + p
		}
		return out
	}
	w.PoolPolicy = verifrt.PoolNew
	var byRef string
	if hb, err := buildWAF(text); err == nil {
		byRef = byRun(hb, func() {})
		hb.Close()
	}
	w.PoolPolicy = verifrt.PoolLIFO
	// the probe itself runs first, on the object the last predecessor used;
	// the bystander pair follows on whatever the pool holds then
	readLate := func(when string) {
		for i, r := range lateReaders {
			var b []byte
			pan := safely(func() { b, _ = io.ReadAll(io.LimitReader(r, 4096)) })
			if pan != "" {
				res.fail("C05", "reader-after-close", "held-reader-panic", "reading a body reader of a closed predecessor %s panicked: %s", when, pan)
				lateReaders = nil
				return
			}
			if len(b) > 0 {
				res.fail("C05", "reader-after-close", "held-reader-late", "body reader %d handed out by a predecessor that is closed yields %q %s\nconfiguration:\n%s\nprobe: %s", i, clip(string(b), 200), when, text, jsonOf(sc.Probe))
				lateReaders = nil
				return
			}
		}
	}
	if len(lateReaders) > 0 {
		sc.Probe.beforeClose = func() { readLate("while the probe holds the recycled object, all its calls made") }
	}
	got := runTx(h, sc.Probe)
	sc.Probe.beforeClose = nil
	readLate("after the probe ran on the recycled object")
	if len(lateReaders) > 0 {
		res.count("late_reader_checks", 1)
	}
	byGot := byRun(h, func() {
		// while a later transaction is alive and has written its body
		if p := safely(func() {
			ltx := h.WAF.NewTransactionWithID("late")
			ltx.ProcessURI("/late", "POST", "HTTP/1.1")
			ltx.AddRequestHeader("Content-Type", "application/x-www-form-urlencoded")
			ltx.ProcessRequestHeaders()
			ltx.WriteRequestBody([]byte("late=secret"))
			ltx.WriteResponseBody([]byte("late response"))
			readLate("while a later transaction holds the recycled object with a body written")
			ltx.ProcessLogging()
			ltx.Close()
		}); p != "" {
			res.fail("C05", "probe-panic", "late/"+panicSite(p), "a transaction after the probe panicked: %s", p)
		}
		runTx(h, sc.Probe)
	})
	if byRef != byGot {
		res.fail("C05", "live-transactions-share-state", "bystander", "a transaction kept alive while the probe ran behaves differently from the same transaction on a fresh WAF:\nfresh:   %s\nhistory: %s\nconfiguration:\n%s\npredecessors: %s", clip(byRef, 1500), clip(byGot, 1500), text, jsonOf(sc.Predecessors))
	}
	res.Nontrivial = w.PoolReuse > reuseBefore
	if w.PoolReuse > reuseBefore {
		res.count("probe_on_recycled_object", 1)
	}
	if len(ref.Fired) > 0 {
		res.count("probe_fired_rules", 1)
	}
	if clause, detail := c05Diff(ref, got); clause != "" {
		res.fail("C05", "probe-differs", clause, "%s\nprobe on a fresh WAF:   %s\nprobe after history:    %s\nconfiguration:\n%s\npredecessors: %s", detail, jsonOf(ref), jsonOf(got), text, jsonOf(sc.Predecessors))
	}
	return res
}

func jsonOf(v any) string {
	b, _ := json.Marshal(v)
	return clip(string(b), 3000)
}

func faultApplies(fault, opKind string) bool {
	switch fault {
	case "create-fail":
		return opKind == "create"
	case "write-error", "short-write":
		return opKind == "write"
	case "read-error", "short-read":
		return opKind == "read"
	case "close-error":
		return opKind == "close"
	case "remove-error":
		return opKind == "remove"
	case "mkdir-error":
		return opKind == "mkdir"
	case "open-fail":
		return opKind == "open"
	}
	return false
}

func tmpKind(p string) string {
	switch {
	case strings.Contains(p, "/body"):
		return "body-spill"
	case strings.Contains(p, "crzmp"):
		return "upload"
	}
	return "other"
}

func diffFiles(before, after []string) []string {
	m := map[string]bool{}
	for _, f := range before {
		m[f] = true
	}
	var out []string
	for _, f := range after {
		if !m[f] {
			out = append(out, f)
		}
	}
	return out
}

// c05Diff compares the full observable outcome; returns the first differing
// component.
func c05Diff(ref, got *Outcome) (string, string) {
	if ref.Panic != got.Panic {
		if (ref.Panic == "") != (got.Panic == "") {
			return "panic", fmt.Sprintf("panic differs: fresh=%q recycled=%q", clip(ref.Panic, 400), clip(got.Panic, 400))
		}
	}
	if !reflect.DeepEqual(ref.Steps, got.Steps) {
		for i := range ref.Steps {
			if i >= len(got.Steps) || ref.Steps[i] != got.Steps[i] {
				g := "<missing>"
				if i < len(got.Steps) {
					g = got.Steps[i]
				}
				return "call-result", fmt.Sprintf("API call %d returned differently: fresh %q, recycled %q", i, ref.Steps[i], g)
			}
		}
		return "call-result", "different number of calls"
	}
	if !itEq(ref.Interrupted, got.Interrupted) {
		return "interruption", fmt.Sprintf("fresh %v, recycled %v", ref.Interrupted, got.Interrupted)
	}
	if (len(ref.Fired) > 0 || len(got.Fired) > 0) && !reflect.DeepEqual(ref.Fired, got.Fired) {
		return "fired-rules", fmt.Sprintf("fresh %v, recycled %v", ref.Fired, got.Fired)
	}
	var dataIDs []int
	for id := range ref.Data {
		dataIDs = append(dataIDs, id)
	}
	sort.Ints(dataIDs) // fixed order: the first differing rule names the clause
	for _, id := range dataIDs {
		d := ref.Data[id]
		if (len(d) > 0 || len(got.Data[id]) > 0) && !reflect.DeepEqual(d, got.Data[id]) {
			c := "match-data"
			if id == 9991 {
				c = "state-dump"
			}
			return c, fmt.Sprintf("rule %d: fresh %q, recycled %q", id, d, got.Data[id])
		}
	}
	if (len(ref.TX) > 0 || len(got.TX) > 0) && !reflect.DeepEqual(ref.TX, got.TX) {
		return "tx-collection", fmt.Sprintf("fresh %v, recycled %v", ref.TX, got.TX)
	}
	if (len(ref.Msgs) > 0 || len(got.Msgs) > 0) && !reflect.DeepEqual(ref.Msgs, got.Msgs) {
		return "messages", fmt.Sprintf("fresh %v, recycled %v", ref.Msgs, got.Msgs)
	}
	if ref.ReqBody != got.ReqBody {
		return "request-body-reader", fmt.Sprintf("fresh %q, recycled %q", ref.ReqBody, got.ReqBody)
	}
	if ref.RespBody != got.RespBody {
		return "response-body-reader", fmt.Sprintf("fresh %q, recycled %q", ref.RespBody, got.RespBody)
	}
	if (len(ref.Audit) > 0 || len(got.Audit) > 0) && !reflect.DeepEqual(ref.Audit, got.Audit) {
		return "audit-record", fmt.Sprintf("fresh %v, recycled %v", ref.Audit, got.Audit)
	}
	if (len(ref.ErrCB) > 0 || len(got.ErrCB) > 0) && !reflect.DeepEqual(ref.ErrCB, got.ErrCB) {
		return "error-callback", fmt.Sprintf("fresh %v, recycled %v", ref.ErrCB, got.ErrCB)
	}
	if ref.CloseErr != got.CloseErr {
		return "close-error", fmt.Sprintf("fresh %q, recycled %q", ref.CloseErr, got.CloseErr)
	}
	if (len(ref.ErrSteps) > 0 || len(got.ErrSteps) > 0) && !reflect.DeepEqual(ref.ErrSteps, got.ErrSteps) {
		return "error-returns", fmt.Sprintf("fresh %v, recycled %v", ref.ErrSteps, got.ErrSteps)
	}
	return "", ""
}

func init() {
	register(&Check{
		ID: "C05", Level: "exploration", Run: c05Run,
		Runs:       [2]int{16000, 800000},
		MaxSeconds: [2]int{90, 1500},
		Rule: "one run = one generated configuration (1-7 rules with ctl:*, skip/skipAfter/allow, chains, captures, exclusions, audit engine/parts/format, body limits small enough to spill) and a history of 1-3 predecessor transactions " +
			"(each may be interrupted in any phase, spill its body, upload files, stop after any API call, omit ProcessLogging, Close twice, hold a body reader across Close; 1/4 of runs inject one disk fault into the last predecessor) followed by a probe transaction on the pooled object (LIFO pool). " +
			"The probe's full outcome (every call's return value, interruption, fired rules and match data, TX dump, a dump rule over every readable variable, body readers, audit record, error callback) must equal the same probe on a fresh WAF with a never-reusing pool. " +
			"non-trivial = the probe ran on a recycled object; distinct = scenario hash",
		Assumptions: []string{"TIME*, DURATION, ENV and temp-file names are excluded from the dump (clock / process state / deterministic counter legitimately differ)"},
		Real:        []string{"whole engine, pool plumbing (internal/sync), BodyBuffer, body processors, audit log assembly and formatters"},
		Stub:        []string{"sync.Pool policy (LIFO vs never reuse)", "file system", "clock", "audit writer (recording plugin)", "random source"},
		Unchecked:   []string{"the predecessors' own outcomes", "TIME*, DURATION, ENV, FILES_TMPNAMES"},
		MustHit:     []string{"override_runs", "probe_on_recycled_object", "predecessor_used_disk", "predecessor_interrupted", "probe_fired_rules"},
	})
}
