package main

import (
	"fmt"
	"os"
	"reflect"
	"sort"
	"strings"

	"github.com/corazawaf/coraza/v3/verifrt"
)

// C04 - a transaction's outcome is a function of configuration and request only.
//
// Simulated: the two hidden schedulers - Go's map iteration order (every
// `range` over a map in coraza asks the simulator for an order) and the
// transaction pool (fresh WAF vs long-lived WAF recycling the same object).

type c04Scenario struct {
	Config string    `json:"config"`
	Script *TxScript `json:"script"`
	Reps   int       `json:"repetitions"`
}

var c04Opts = genOpts{
	MaxRules: 6, Phases: []int{1, 1, 2, 2, 5}, Disruptive: 5, Flow: true, Dyn: true, Chains: true, Ctl: true,
	Capture: true, MultiMatch: true, Exclusions: true, RegexKeys: true, Counts: true,
}

func sortedSet(xs []int) []int {
	m := map[int]bool{}
	for _, x := range xs {
		m[x] = true
	}
	var out []int
	for x := range m {
		out = append(out, x)
	}
	sort.Ints(out)
	return out
}

// c04Diff compares what the statement says must be order independent.
func c04Diff(ref, got *Outcome) (clause, detail string, rule int) {
	if ref.Panic != "" || got.Panic != "" {
		if (ref.Panic == "") != (got.Panic == "") {
			return "panic-differs", fmt.Sprintf("reference panic=%q, repetition panic=%q at %s", clip(ref.Panic, 300), clip(got.Panic, 300), got.PanicStep), 0
		}
		return "", "", 0
	}
	if !itEq(ref.Interrupted, got.Interrupted) {
		return "interruption", fmt.Sprintf("reference interrupted by %v, repetition by %v", ref.Interrupted, got.Interrupted), 0
	}
	rs, gs := sortedSet(ref.Fired), sortedSet(got.Fired)
	if !reflect.DeepEqual(rs, gs) {
		return "fired-set", fmt.Sprintf("reference fired %v, repetition fired %v", rs, gs), 0
	}
	for _, id := range rs {
		if !reflect.DeepEqual(ref.Data[id], got.Data[id]) {
			return "match-data", fmt.Sprintf("rule %d matched %q in the reference and %q in the repetition", id, ref.Data[id], got.Data[id]), id
		}
	}
	for _, k := range []string{"cnt", "score"} {
		if ref.TX[k] != got.TX[k] {
			return "counter", fmt.Sprintf("TX:%s = %q in the reference and %q in the repetition", k, ref.TX[k], got.TX[k]), 0
		}
	}
	return "", "", 0
}

// c04Canon is the part of an outcome that the statement names, in a canonical
// form (sets sorted, multisets sorted).
func c04Canon(o *Outcome) any {
	data := map[int][]string{}
	for _, id := range sortedSet(o.Fired) {
		d := append([]string(nil), o.Data[id]...)
		sort.Strings(d)
		data[id] = d
	}
	return map[string]any{"panic": o.Panic != "", "interrupted": o.Interrupted, "fired": sortedSet(o.Fired), "data": data, "cnt": o.TX["cnt"], "score": o.TX["score"]}
}

// siblingText is the same configuration with every regex selector moved to the
// other case-sensitivity class (ARGS family <-> headers / cookies).
func siblingText(text string) string {
	sib := strings.NewReplacer("ARGS_GET:/", "\x00C:/", "ARGS_POST:/", "\x00C:/", "ARGS:/", "\x00H:/", "REQUEST_HEADERS:/", "\x00A:/", "REQUEST_COOKIES:/", "\x00G:/").Replace(text)
	return strings.NewReplacer("\x00C:/", "REQUEST_COOKIES:/", "\x00H:/", "REQUEST_HEADERS:/", "\x00A:/", "ARGS:/", "\x00G:/", "ARGS_GET:/").Replace(sib)
}

func c04Run(w *verifrt.World, tier Tier) *RunResult {
	res := &RunResult{}
	t := w.Work
	cfg := genConfig(t, &c04Opts)
	if t.Draw(4) == 0 {
		cfg.ArgLimit = 1 + t.Draw(4)
	}
	if t.Draw(2) == 0 {
		// small body limits: bodies spill to the simulated disk and the limit is
		// within reach of two consecutive requests on the same pooled object
		cfg.ReqAccess = true
		cfg.ReqLimit = 24 + t.Draw(120)
		cfg.ReqMem = 1 + t.Draw(cfg.ReqLimit)
		cfg.ReqReject = t.Draw(2) == 0
	}
	script := genScript(t, &reqOpts{Body: true, JSON: true, Uploads: true, MaxArgs: 6}, "c04")
	cfg.Lines = append(cfg.Lines, "SecDataset ds1 `\nevil\nfoo\n`")
	dump := cfg.DumpTX
	cfg.DumpTX = false
	// a quarter of the runs: a ctl action that only the unrelated request between
	// the repetitions triggers (it carries X-Pred) - what that request changed for
	// itself must be gone when the recycled object serves the request again
	trigger := ""
	if t.Draw(4) == 0 {
		trigger = fmt.Sprintf("SecRule REQUEST_HEADERS:X-Pred \"@streq 1\" \"id:9970,phase:1,pass,nolog,ctl:%s\"\n", pick(t, []string{
			"requestBodyLimit=5", "requestBodyLimit=3", "responseBodyLimit=4", "requestBodyAccess=Off", "ruleEngine=Off", "ruleEngine=DetectionOnly",
			"forceRequestBodyVariable=On", "requestBodyProcessor=JSON", "ruleRemoveById=101-104", "ruleRemoveByTag=t1", "ruleRemoveTargetById=101;ARGS", "ruleRemoveTargetById=102;ARGS_GET"}))
	}
	text := cfg.Text() + trigger + strings.Join(c06Special(t), "\n") + "\n"
	if dump {
		text += fmt.Sprintf("SecRule TX \"@unconditionalMatch\" \"id:%d,phase:5,pass,nolog\"\n", dumpRuleID)
	}
	reps := 8
	if tier == Thorough {
		reps = 32
	}
	sc := &c04Scenario{Config: text, Script: script, Reps: reps}
	res.Sample = sc
	res.Hash = hash64(text + fmt.Sprintf("%+v", *script))

	// reference: canonical map order and a pool that never hands anything back
	// (sync.Pool may drop whatever it holds at any time); the repetitions then
	// see pools that recycle - every sync.Pool in the library, not only the
	// transaction pool, is a scheduler decision
	w.MapPolicy = verifrt.MapCanonical
	w.PoolPolicy = verifrt.PoolNew
	h, err := buildWAF(text)
	if err != nil {
		if strings.HasPrefix(err.Error(), "PANIC") {
			res.fail("C04", "build-panic", "newwaf", "%v\n%s", err, text)
		}
		res.count("config_rejected", 1)
		return res
	}
	ref := runTx(h, script)
	h.Close()
	res.note("reference", c04Canon(ref))

	// a sibling WAF stays open during the repetitions: the same rules with the
	// regex selectors moved to the other case-sensitivity class (ARGS family <->
	// headers / cookies), so that anything cached process-wide under the text of
	// a selector is shared with a WAF that needs a different value for it
	sib := siblingText(text)
	if sib != text {
		if sh, err := buildWAF(sib); err == nil {
			defer sh.Close()
			res.count("sibling_waf_open", 1)
		}
	}
	long, _ := buildWAF(text) // long-lived instance, object recycled through the pool
	defer long.Close()
	warm := genScript(verifrt.NewTape("warm", w.Seed), &reqOpts{Body: true, MaxArgs: 4}, "warm")
	if trigger != "" {
		warm.Headers = append(warm.Headers, Header{"X-Pred", "1"})
		res.count("warm_request_with_ctl", 1)
	}
	ordersBefore := w.MapOrders
	for i := 0; i < reps; i++ {
		pol := verifrt.MapRotate
		if i%2 == 1 {
			pol = verifrt.MapShuffle
		}
		w.MapPolicy = pol
		w.PoolPolicy = []int{verifrt.PoolLIFO, verifrt.PoolLIFO, verifrt.PoolFIFO, verifrt.PoolLIFO, verifrt.PoolRandom}[i%5]
		var got *Outcome
		variant := "fresh"
		if i%4 >= 2 {
			variant = "reused"
			// an unrelated request, then the request itself once more: the
			// repetition must not depend on what the object did before
			runTx(long, warm)
			if i%8 >= 6 {
				runTx(long, script)
			}
			got = runTx(long, script)
		} else {
			hh, err := buildWAF(text)
			if err != nil {
				res.fail("C04", "build-differs", "newwaf", "configuration accepted under canonical order but rejected under a permuted order: %v", err)
				break
			}
			got = runTx(hh, script)
			hh.Close()
		}
		if clause, detail, rule := c04Diff(ref, got); clause != "" {
			polName := map[int]string{verifrt.MapRotate: "rotate", verifrt.MapShuffle: "shuffle"}[pol]
			feature := ""
			if rule != 0 {
				for _, r := range cfg.Rules {
					if r.ID == rule && len(r.Targets) > 0 {
						feature = "/" + r.Targets[0].Var
						if len(r.Trans) > 0 {
							feature += "+t"
						}
					}
				}
			}
			res.fail("C04", clause, polName+feature, "%s\n(map order policy %s, %s WAF, repetition %d)\nconfiguration:\n%s\nrequest: %s %s body=%q", detail, polName, variant, i, text, script.Method, script.URI, script.Body)
			break
		}
	}
	w.MapPolicy = verifrt.MapCanonical
	res.count("map_orders_permuted", int64(w.MapOrders-ordersBefore))
	res.count("pool_reuse", int64(w.PoolReuse))
	res.Nontrivial = w.MapOrders-ordersBefore >= 2 && len(ref.Fired) > 0
	if len(ref.Fired) > 0 {
		res.count("runs_with_fired_rules", 1)
	}
	if ref.Interrupted != nil {
		res.count("runs_interrupted", 1)
	}
	return res
}

// c04Age makes the process look like a server that has been up for a while:
// several large configurations with many different transformation chains,
// selectors and patterns were loaded, used once and dropped.
func c04Age() int {
	ok := 0
	// transformation names the scenario generator does not use: the process has
	// seen several hundred chains, none of which a later scenario asks for
	names := []string{"hexDecode", "base64Decode", "md5", "cmdLine", "jsDecode", "cssDecode", "htmlEntityDecode", "normalisePath", "replaceComments",
		"utf8toUnicode", "urlEncode", "escapeSeqDecode", "normalisePathWin", "removeComments", "replaceNulls", "removeCommentsChar", "trimLeft", "trimRight", "base64DecodeExt", "urlDecodeUni"}
	for g := 0; g < 3; g++ {
		var sb strings.Builder
		sb.WriteString("SecRuleEngine On\n")
		id := 1000
		for i, a := range names {
			for j, b := range names {
				if (i+j)%3 != g {
					continue
				}
				fmt.Fprintf(&sb, "SecRule ARGS|REQUEST_HEADERS:/^x-%d/ \"@rx ^aged%d-%d\" \"id:%d,phase:1,pass,nolog,t:%s,t:%s\"\n", id%17, g, id, id, a, b)
				id++
			}
		}
		h, err := buildWAF(sb.String())
		if err != nil {
			fmt.Fprintf(os.Stderr, "WARNING: ageing configuration %d rejected: %v\n", g, err)
			continue
		}
		safely(func() {
			tx := h.WAF.NewTransaction()
			tx.ProcessURI("/aged?a=1&b=2", "GET", "HTTP/1.1")
			tx.AddRequestHeader("X-3", "v")
			tx.ProcessRequestHeaders()
			tx.ProcessLogging()
			tx.Close()
		})
		h.Close()
		ok++
	}
	return ok
}

func init() {
	register(&Check{
		Age: c04Age,
		ID:  "C04", Level: "exploration", Run: c04Run, HistoryProbe: true, AgedWorker: true,
		Runs:       [2]int{12000, 200000},
		MaxSeconds: [2]int{90, 1500},
		Rule: "one run = one generated (configuration of 1-6 rules incl. chains, exclusions, regex keys, counts, transformations, setvar counters, flow actions; request with repeated / mixed-case names in query, cookies, headers, urlencoded / multipart / JSON body, optional SecArgumentsLimit) " +
			"executed once with canonical (sorted) map iteration order on a fresh WAF = reference, then N=8 (quick) / 32 (thorough) times with every map iteration permuted by the simulator (alternating rotation and full shuffle) on fresh and on long-lived WAFs that recycle the pooled transaction object; " +
			"interruption, set of fired rules, per-rule multiset of (variable,key,value) and the additive TX counters must equal the reference. non-trivial = at least two non-identity map orders were produced and at least one rule fired; distinct = scenario hash",
		Assumptions: []string{
			"a full shuffle is a stronger adversary than today's Go runtime; the language leaves the order unspecified and the property names the runtime's hash-iteration order",
			"order of match data inside one rule, non-additive TX variables, messages built from MATCHED_VAR_NAME, TIME*/DURATION/UNIQUE_ID are not compared",
		},
		Real:      []string{"whole coraza engine incl. collections, body processors, transformation cache, seclang parser"},
		Stub:      []string{"map iteration order (verifrt.MapRange)", "sync.Pool policy", "clock", "random source", "file system"},
		Unchecked: []string{"order of match data inside a rule", "non-additive TX variables", "TIME*, DURATION, UNIQUE_ID"},
		MustHit:   []string{"map_orders_permuted", "pool_reuse", "runs_with_fired_rules", "runs_interrupted"},
	})
}
