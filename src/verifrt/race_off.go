//go:build !race

package verifrt

import "unsafe"

const RaceEnabled = false

func raceDisable() {}
func raceEnable()  {}

func RaceAcquire(p unsafe.Pointer)      {}
func RaceRelease(p unsafe.Pointer)      {}
func RaceReleaseMerge(p unsafe.Pointer) {}
