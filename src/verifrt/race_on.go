//go:build race

package verifrt

import (
	"runtime"
	"unsafe"
)

const RaceEnabled = true

//go:norace
func raceDisable() { runtime.RaceDisable() }

//go:norace
func raceEnable() { runtime.RaceEnable() }

// RaceAcquire / RaceRelease / RaceReleaseMerge give simulated primitives the
// exact happens-before edges of the real ones.
//
//go:norace
func RaceAcquire(p unsafe.Pointer) { runtime.RaceAcquire(p) }

//go:norace
func RaceRelease(p unsafe.Pointer) { runtime.RaceRelease(p) }

//go:norace
func RaceReleaseMerge(p unsafe.Pointer) { runtime.RaceReleaseMerge(p) }
