package verifrt

import "math/rand"

// Stubs that stand in for library objects (not simulator internals): a data
// race on their state is a race of the calling code, exactly as it would be on
// the real library object.

// ---------------------------------------------------------------- randomness

type simSource struct{ r rand.Source }

func (s *simSource) Int63() int64    { return s.r.Int63() }
func (s *simSource) Seed(seed int64) { s.r.Seed(seed) }
func (s *simSource) reseed(seed int64) {
	s.r = rand.NewSource(seed)
}

var globalSrc *simSource

// NewRandSource replaces rand.NewSource(time.Now().UnixNano()) in
// internal/strings: the source is re-seeded from the run seed by Install.
func NewRandSource(seed int64) rand.Source {
	s := &simSource{r: rand.NewSource(42)}
	globalSrc = s
	return s
}
