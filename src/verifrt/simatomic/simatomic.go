// Package simatomic mirrors sync/atomic: the real operation is executed (so the
// race detector sees the real edges) after a pre-emption point.
package simatomic

import (
	"sync/atomic"
	"unsafe"

	"github.com/corazawaf/coraza/v3/verifrt"
)

const siteAtomic = 32

type Value = atomic.Value

type Int32 struct{ v atomic.Int32 }

func (x *Int32) Load() int32           { verifrt.Y(siteAtomic); return x.v.Load() }
func (x *Int32) Store(val int32)       { verifrt.Y(siteAtomic); x.v.Store(val) }
func (x *Int32) Swap(new int32) int32  { verifrt.Y(siteAtomic); return x.v.Swap(new) }
func (x *Int32) Add(delta int32) int32 { verifrt.Y(siteAtomic); return x.v.Add(delta) }
func (x *Int32) And(mask int32) int32  { verifrt.Y(siteAtomic); return x.v.And(mask) }
func (x *Int32) Or(mask int32) int32   { verifrt.Y(siteAtomic); return x.v.Or(mask) }
func (x *Int32) CompareAndSwap(old, new int32) bool {
	verifrt.Y(siteAtomic)
	return x.v.CompareAndSwap(old, new)
}

func LoadInt32(addr *int32) int32       { verifrt.Y(siteAtomic); return atomic.LoadInt32(addr) }
func StoreInt32(addr *int32, val int32) { verifrt.Y(siteAtomic); atomic.StoreInt32(addr, val) }
func SwapInt32(addr *int32, new int32) int32 {
	verifrt.Y(siteAtomic)
	return atomic.SwapInt32(addr, new)
}
func AddInt32(addr *int32, delta int32) int32 {
	verifrt.Y(siteAtomic)
	return atomic.AddInt32(addr, delta)
}
func CompareAndSwapInt32(addr *int32, old, new int32) bool {
	verifrt.Y(siteAtomic)
	return atomic.CompareAndSwapInt32(addr, old, new)
}

type Int64 struct{ v atomic.Int64 }

func (x *Int64) Load() int64           { verifrt.Y(siteAtomic); return x.v.Load() }
func (x *Int64) Store(val int64)       { verifrt.Y(siteAtomic); x.v.Store(val) }
func (x *Int64) Swap(new int64) int64  { verifrt.Y(siteAtomic); return x.v.Swap(new) }
func (x *Int64) Add(delta int64) int64 { verifrt.Y(siteAtomic); return x.v.Add(delta) }
func (x *Int64) And(mask int64) int64  { verifrt.Y(siteAtomic); return x.v.And(mask) }
func (x *Int64) Or(mask int64) int64   { verifrt.Y(siteAtomic); return x.v.Or(mask) }
func (x *Int64) CompareAndSwap(old, new int64) bool {
	verifrt.Y(siteAtomic)
	return x.v.CompareAndSwap(old, new)
}

func LoadInt64(addr *int64) int64       { verifrt.Y(siteAtomic); return atomic.LoadInt64(addr) }
func StoreInt64(addr *int64, val int64) { verifrt.Y(siteAtomic); atomic.StoreInt64(addr, val) }
func SwapInt64(addr *int64, new int64) int64 {
	verifrt.Y(siteAtomic)
	return atomic.SwapInt64(addr, new)
}
func AddInt64(addr *int64, delta int64) int64 {
	verifrt.Y(siteAtomic)
	return atomic.AddInt64(addr, delta)
}
func CompareAndSwapInt64(addr *int64, old, new int64) bool {
	verifrt.Y(siteAtomic)
	return atomic.CompareAndSwapInt64(addr, old, new)
}

type Uint32 struct{ v atomic.Uint32 }

func (x *Uint32) Load() uint32            { verifrt.Y(siteAtomic); return x.v.Load() }
func (x *Uint32) Store(val uint32)        { verifrt.Y(siteAtomic); x.v.Store(val) }
func (x *Uint32) Swap(new uint32) uint32  { verifrt.Y(siteAtomic); return x.v.Swap(new) }
func (x *Uint32) Add(delta uint32) uint32 { verifrt.Y(siteAtomic); return x.v.Add(delta) }
func (x *Uint32) And(mask uint32) uint32  { verifrt.Y(siteAtomic); return x.v.And(mask) }
func (x *Uint32) Or(mask uint32) uint32   { verifrt.Y(siteAtomic); return x.v.Or(mask) }
func (x *Uint32) CompareAndSwap(old, new uint32) bool {
	verifrt.Y(siteAtomic)
	return x.v.CompareAndSwap(old, new)
}

func LoadUint32(addr *uint32) uint32       { verifrt.Y(siteAtomic); return atomic.LoadUint32(addr) }
func StoreUint32(addr *uint32, val uint32) { verifrt.Y(siteAtomic); atomic.StoreUint32(addr, val) }
func SwapUint32(addr *uint32, new uint32) uint32 {
	verifrt.Y(siteAtomic)
	return atomic.SwapUint32(addr, new)
}
func AddUint32(addr *uint32, delta uint32) uint32 {
	verifrt.Y(siteAtomic)
	return atomic.AddUint32(addr, delta)
}
func CompareAndSwapUint32(addr *uint32, old, new uint32) bool {
	verifrt.Y(siteAtomic)
	return atomic.CompareAndSwapUint32(addr, old, new)
}

type Uint64 struct{ v atomic.Uint64 }

func (x *Uint64) Load() uint64            { verifrt.Y(siteAtomic); return x.v.Load() }
func (x *Uint64) Store(val uint64)        { verifrt.Y(siteAtomic); x.v.Store(val) }
func (x *Uint64) Swap(new uint64) uint64  { verifrt.Y(siteAtomic); return x.v.Swap(new) }
func (x *Uint64) Add(delta uint64) uint64 { verifrt.Y(siteAtomic); return x.v.Add(delta) }
func (x *Uint64) And(mask uint64) uint64  { verifrt.Y(siteAtomic); return x.v.And(mask) }
func (x *Uint64) Or(mask uint64) uint64   { verifrt.Y(siteAtomic); return x.v.Or(mask) }
func (x *Uint64) CompareAndSwap(old, new uint64) bool {
	verifrt.Y(siteAtomic)
	return x.v.CompareAndSwap(old, new)
}

func LoadUint64(addr *uint64) uint64       { verifrt.Y(siteAtomic); return atomic.LoadUint64(addr) }
func StoreUint64(addr *uint64, val uint64) { verifrt.Y(siteAtomic); atomic.StoreUint64(addr, val) }
func SwapUint64(addr *uint64, new uint64) uint64 {
	verifrt.Y(siteAtomic)
	return atomic.SwapUint64(addr, new)
}
func AddUint64(addr *uint64, delta uint64) uint64 {
	verifrt.Y(siteAtomic)
	return atomic.AddUint64(addr, delta)
}
func CompareAndSwapUint64(addr *uint64, old, new uint64) bool {
	verifrt.Y(siteAtomic)
	return atomic.CompareAndSwapUint64(addr, old, new)
}

type Uintptr struct{ v atomic.Uintptr }

func (x *Uintptr) Load() uintptr             { verifrt.Y(siteAtomic); return x.v.Load() }
func (x *Uintptr) Store(val uintptr)         { verifrt.Y(siteAtomic); x.v.Store(val) }
func (x *Uintptr) Swap(new uintptr) uintptr  { verifrt.Y(siteAtomic); return x.v.Swap(new) }
func (x *Uintptr) Add(delta uintptr) uintptr { verifrt.Y(siteAtomic); return x.v.Add(delta) }

func (x *Uintptr) CompareAndSwap(old, new uintptr) bool {
	verifrt.Y(siteAtomic)
	return x.v.CompareAndSwap(old, new)
}

func LoadUintptr(addr *uintptr) uintptr       { verifrt.Y(siteAtomic); return atomic.LoadUintptr(addr) }
func StoreUintptr(addr *uintptr, val uintptr) { verifrt.Y(siteAtomic); atomic.StoreUintptr(addr, val) }
func SwapUintptr(addr *uintptr, new uintptr) uintptr {
	verifrt.Y(siteAtomic)
	return atomic.SwapUintptr(addr, new)
}
func AddUintptr(addr *uintptr, delta uintptr) uintptr {
	verifrt.Y(siteAtomic)
	return atomic.AddUintptr(addr, delta)
}
func CompareAndSwapUintptr(addr *uintptr, old, new uintptr) bool {
	verifrt.Y(siteAtomic)
	return atomic.CompareAndSwapUintptr(addr, old, new)
}

type Bool struct{ v atomic.Bool }

func (x *Bool) Load() bool         { verifrt.Y(siteAtomic); return x.v.Load() }
func (x *Bool) Store(val bool)     { verifrt.Y(siteAtomic); x.v.Store(val) }
func (x *Bool) Swap(new bool) bool { verifrt.Y(siteAtomic); return x.v.Swap(new) }
func (x *Bool) CompareAndSwap(old, new bool) bool {
	verifrt.Y(siteAtomic)
	return x.v.CompareAndSwap(old, new)
}

type Pointer[T any] struct{ v atomic.Pointer[T] }

func (x *Pointer[T]) Load() *T       { verifrt.Y(siteAtomic); return x.v.Load() }
func (x *Pointer[T]) Store(val *T)   { verifrt.Y(siteAtomic); x.v.Store(val) }
func (x *Pointer[T]) Swap(new *T) *T { verifrt.Y(siteAtomic); return x.v.Swap(new) }
func (x *Pointer[T]) CompareAndSwap(old, new *T) bool {
	verifrt.Y(siteAtomic)
	return x.v.CompareAndSwap(old, new)
}

func LoadPointer(addr *unsafe.Pointer) unsafe.Pointer {
	verifrt.Y(siteAtomic)
	return atomic.LoadPointer(addr)
}
func StorePointer(addr *unsafe.Pointer, val unsafe.Pointer) {
	verifrt.Y(siteAtomic)
	atomic.StorePointer(addr, val)
}
func SwapPointer(addr *unsafe.Pointer, new unsafe.Pointer) unsafe.Pointer {
	verifrt.Y(siteAtomic)
	return atomic.SwapPointer(addr, new)
}
func CompareAndSwapPointer(addr *unsafe.Pointer, old, new unsafe.Pointer) bool {
	verifrt.Y(siteAtomic)
	return atomic.CompareAndSwapPointer(addr, old, new)
}

func AndInt32(addr *int32, mask int32) int32 {
	verifrt.Y(siteAtomic)
	return atomic.AndInt32(addr, mask)
}
func AndInt64(addr *int64, mask int64) int64 {
	verifrt.Y(siteAtomic)
	return atomic.AndInt64(addr, mask)
}
func AndUint32(addr *uint32, mask uint32) uint32 {
	verifrt.Y(siteAtomic)
	return atomic.AndUint32(addr, mask)
}
func AndUint64(addr *uint64, mask uint64) uint64 {
	verifrt.Y(siteAtomic)
	return atomic.AndUint64(addr, mask)
}
func AndUintptr(addr *uintptr, mask uintptr) uintptr {
	verifrt.Y(siteAtomic)
	return atomic.AndUintptr(addr, mask)
}
func OrInt32(addr *int32, mask int32) int32 { verifrt.Y(siteAtomic); return atomic.OrInt32(addr, mask) }
func OrInt64(addr *int64, mask int64) int64 { verifrt.Y(siteAtomic); return atomic.OrInt64(addr, mask) }
func OrUint32(addr *uint32, mask uint32) uint32 {
	verifrt.Y(siteAtomic)
	return atomic.OrUint32(addr, mask)
}
func OrUint64(addr *uint64, mask uint64) uint64 {
	verifrt.Y(siteAtomic)
	return atomic.OrUint64(addr, mask)
}
func OrUintptr(addr *uintptr, mask uintptr) uintptr {
	verifrt.Y(siteAtomic)
	return atomic.OrUintptr(addr, mask)
}
