// simgen builds an instrumented *view* of the coraza working tree without
// touching it: it writes rewritten copies of the files it has to change into a
// scratch directory and a `go build -overlay` file that maps the originals to
// the copies and maps the simulator runtime (/verif/src/verifrt) into the
// module's package namespace.  See DESIGN.md §2.1/§2.2.
//
// Rewrites (all spliced on the original line, so line numbers are preserved):
//
//	R1  for ... range <map>         -> range verifrt.MapRange(site, <map>)
//	R2  import "sync", "sync/atomic" -> verifrt/simsync, verifrt/simatomic
//	R4  import "os"                 -> verifrt/simos
//	R5  time.Now / Since / After... -> verifrt.Now ...
//	R6  rand.NewSource              -> verifrt.NewRandSource
//	R7  statement yields in listed functions
//	R8  entry / loop yields in listed functions
//	R9  go f(x)                     -> verifrt.Go(func(){ f(x) })
//	    import singleflight         -> instrumented copy under verifrt/singleflight
package main

import (
	"bytes"
	"encoding/json"
	"flag"
	"fmt"
	"go/ast"
	"go/importer"
	"go/parser"
	"go/token"
	"go/types"
	"hash/fnv"
	"io"
	"os"
	"os/exec"
	"path/filepath"
	"sort"
	"strconv"
	"strings"
)

const modPath = "github.com/corazawaf/coraza/v3"
const rtPath = modPath + "/verifrt"

type listPkg struct {
	Dir        string
	ImportPath string
	Name       string
	Export     string
	GoFiles    []string
	Standard   bool
	Module     *struct{ Path, Dir string }
	Error      *struct{ Err string }
}

type edit struct {
	off  int
	del  int
	text string
	ord  int
}

type siteInfo struct {
	ID   uint32 `json:"id"`
	Kind string `json:"kind"`
	Pos  string `json:"pos"`
	Func string `json:"func,omitempty"`
}

var (
	repo    = flag.String("repo", "/repo", "repository root")
	rtSrc   = flag.String("rt", "/verif/src/verifrt", "runtime sources")
	out     = flag.String("out", "", "scratch output directory")
	tags    = flag.String("tags", "", "extra build tags (comma separated)")
	goBin   = flag.String("go", "go", "go binary")
	verbose = flag.Bool("v", false, "verbose")
)

var sites []siteInfo

// pkgVars[module-relative dir][name] = a package-level variable of that name exists
var pkgVars = map[string]map[string]bool{}
var skippedRanges []string

// packages (module-relative dir) that are never instrumented.
func excluded(rel string) bool {
	for _, p := range []string{"testing", "examples", "http/e2e", "internal/variables/generator", "internal/seclang/generator", "verifrt"} {
		if rel == p || strings.HasPrefix(rel, p+"/") {
			return true
		}
	}
	return false
}

// R7: statement-level yields.  Key: module-relative package dir.  Values:
// "Func", "Recv.Method", "Recv.*" or "*".
var stmtYield = map[string][]string{
	"internal/memoize":  {"*"},
	"internal/sync":     {"*"},
	"internal/auditlog": {"serialWriter.*", "concurrentWriter.*"},
	"internal/strings":  {"RandomString"},
	"internal/corazawaf": {"transformationID", "computeRuleChainMinPhase", "WAF.newTransaction", "WAF.Close",
		"WAF.AuditLogWriter", "WAF.InitAuditLogWriter", "Transaction.Close", "BodyBuffer.*", "bodyBufferReader.*"},
}

// R8: entry yields (function entry) and loop yields (every for/range body).
var entryYield = map[string][]string{
	"internal/corazawaf": {"Transaction.*", "WAF.NewTransaction", "WAF.NewTransactionWithOptions"},
	"http":               {"*"},
}
var loopYield = map[string][]string{
	"internal/corazawaf": {"RuleGroup.Eval"},
}

func matchFn(list []string, recv, name string) bool {
	for _, p := range list {
		switch {
		case p == "*":
			return true
		case strings.HasSuffix(p, ".*"):
			if recv != "" && recv == strings.TrimSuffix(p, ".*") {
				return true
			}
		case strings.Contains(p, "."):
			if recv+"."+name == p {
				return true
			}
		default:
			if recv == "" && name == p {
				return true
			}
		}
	}
	return false
}

func fatal(format string, a ...any) {
	fmt.Fprintf(os.Stderr, "simgen: "+format+"\n", a...)
	os.Exit(2)
}

func siteID(kind, rel string, line, col int) uint32 {
	h := fnv.New32a()
	fmt.Fprintf(h, "%s|%s|%d|%d", kind, rel, line, col)
	return h.Sum32()
}

func main() {
	flag.Parse()
	if *out == "" {
		fatal("-out required")
	}
	gen := filepath.Join(*out, "gen")
	must(os.MkdirAll(gen, 0o755))

	// 1. package graph with export data
	args := []string{"list", "-export", "-deps", "-json=Dir,ImportPath,Name,Export,GoFiles,Standard,Module,Error"}
	if *tags != "" {
		args = append(args, "-tags", *tags)
	}
	args = append(args, "./...")
	cmd := exec.Command(*goBin, args...)
	cmd.Dir = *repo
	cmd.Stderr = os.Stderr
	raw, err := cmd.Output()
	if err != nil {
		fatal("go list failed: %v", err)
	}
	exports := map[string]string{}
	var modPkgs []*listPkg
	dec := json.NewDecoder(bytes.NewReader(raw))
	for {
		var p listPkg
		if err := dec.Decode(&p); err == io.EOF {
			break
		} else if err != nil {
			fatal("decode go list: %v", err)
		}
		if p.Export != "" {
			exports[p.ImportPath] = p.Export
		}
		if p.Module != nil && p.Module.Path == modPath && !p.Standard {
			rel, _ := filepath.Rel(*repo, p.Dir)
			if excluded(filepath.ToSlash(rel)) {
				continue
			}
			if p.Error != nil {
				fatal("package %s: %s", p.ImportPath, p.Error.Err)
			}
			pp := p
			modPkgs = append(modPkgs, &pp)
		}
	}

	overlay := map[string]string{}
	fset := token.NewFileSet()
	imp := importer.ForCompiler(fset, "gc", func(path string) (io.ReadCloser, error) {
		f, ok := exports[path]
		if !ok {
			return nil, fmt.Errorf("no export data for %q", path)
		}
		return os.Open(f)
	})

	for _, p := range modPkgs {
		rel, _ := filepath.Rel(*repo, p.Dir)
		rel = filepath.ToSlash(rel)
		var files []*ast.File
		var srcs [][]byte
		for _, gf := range p.GoFiles {
			fn := filepath.Join(p.Dir, gf)
			src, err := os.ReadFile(fn)
			must(err)
			f, err := parser.ParseFile(fset, fn, src, parser.ParseComments|parser.SkipObjectResolution)
			if err != nil {
				fatal("parse %s: %v", fn, err)
			}
			files = append(files, f)
			srcs = append(srcs, src)
		}
		info := &types.Info{Types: map[ast.Expr]types.TypeAndValue{}}
		conf := types.Config{Importer: imp, Error: func(err error) {}}
		if _, err := conf.Check(p.ImportPath, fset, files, info); err != nil && *verbose {
			fmt.Fprintf(os.Stderr, "simgen: typecheck %s: %v (continuing)\n", p.ImportPath, err)
		}
		for _, f := range files {
			for _, d := range f.Decls {
				if gd, ok := d.(*ast.GenDecl); ok && gd.Tok == token.VAR {
					for _, sp := range gd.Specs {
						if vs, ok := sp.(*ast.ValueSpec); ok {
							for _, n := range vs.Names {
								if pkgVars[rel] == nil {
									pkgVars[rel] = map[string]bool{}
								}
								pkgVars[rel][n.Name] = true
							}
						}
					}
				}
			}
		}
		for i, f := range files {
			fn := fset.Position(f.Pos()).Filename
			res, changed := rewriteFile(fset, f, srcs[i], rel, info, false)
			if !changed {
				continue
			}
			dst := filepath.Join(gen, rel, filepath.Base(fn))
			must(os.MkdirAll(filepath.Dir(dst), 0o755))
			must(os.WriteFile(dst, res, 0o644))
			overlay[fn] = dst
		}
	}

	// 2. instrumented copy of golang.org/x/sync/singleflight
	sfDir := moduleDir("golang.org/x/sync")
	sfSrc := filepath.Join(sfDir, "singleflight", "singleflight.go")
	src, err := os.ReadFile(sfSrc)
	if err != nil {
		fatal("singleflight source: %v", err)
	}
	f, err := parser.ParseFile(fset, sfSrc, src, parser.ParseComments|parser.SkipObjectResolution)
	must(err)
	res, _ := rewriteFile(fset, f, src, "verifrt/singleflight", nil, true)
	dst := filepath.Join(gen, "verifrt", "singleflight", "singleflight.go")
	must(os.MkdirAll(filepath.Dir(dst), 0o755))
	must(os.WriteFile(dst, res, 0o644))
	overlay[filepath.Join(*repo, "verifrt", "singleflight", "singleflight.go")] = dst

	// 3. runtime + harness sources mapped into the module namespace
	must(filepath.Walk(*rtSrc, func(path string, fi os.FileInfo, err error) error {
		if err != nil {
			return err
		}
		if fi.IsDir() || !strings.HasSuffix(path, ".go") {
			return nil
		}
		rel, _ := filepath.Rel(*rtSrc, path)
		overlay[filepath.Join(*repo, "verifrt", rel)] = path
		return nil
	}))

	// 3b. a reset hook for process-wide state inside internal/corazawaf (a new
	// file in an existing package; nothing in the repository refers to it)
	// Only identifiers that still exist are reset, so that a refactoring of these
	// internals degrades replay fidelity instead of breaking the build.
	has := func(dir, name string) bool { return pkgVars[dir][name] }
	var body strings.Builder
	if has("internal/corazawaf", "transformationIDsLock") && has("internal/corazawaf", "transformationIDToName") && has("internal/corazawaf", "transformationNameToID") {
		body.WriteString("\ttransformationIDsLock.Lock()\n\ttransformationIDToName = []string{\"\"}\n\ttransformationNameToID = map[string]int{\"\": 0}\n\ttransformationIDsLock.Unlock()\n")
	}
	if has("internal/corazawaf", "wafIDCounter") {
		body.WriteString("\twafIDCounter.Store(0)\n")
	}
	resetSrc := "package corazawaf\n\n// VerifResetGlobals restores the process-wide state of this package to its\n// initial value, so that every simulated run starts from the state of a fresh\n// process (added by the build overlay; simulation only).\nfunc VerifResetGlobals() {\n" + body.String() + "}\n"
	rs := filepath.Join(gen, "internal", "corazawaf", "zz_verif_reset.go")
	must(os.MkdirAll(filepath.Dir(rs), 0o755))
	must(os.WriteFile(rs, []byte(resetSrc), 0o644))
	overlay[filepath.Join(*repo, "internal", "corazawaf", "zz_verif_reset.go")] = rs

	var mbody strings.Builder
	mimports := ""
	if has("internal/memoize", "cache") {
		mbody.WriteString("\tcache = sync.Map{}\n")
		mimports += "\tsync \"github.com/corazawaf/coraza/v3/verifrt/simsync\"\n"
	}
	if has("internal/memoize", "group") {
		mbody.WriteString("\tgroup = singleflight.Group{}\n")
		mimports += "\t\"github.com/corazawaf/coraza/v3/verifrt/singleflight\"\n"
	}
	if mimports != "" {
		mimports = "import (\n" + mimports + ")\n\n"
	}
	memoReset := "//go:build !tinygo && !coraza.no_memoize\n\npackage memoize\n\n" + mimports + "// VerifResetGlobals gives the process-wide cache the state of a fresh process\n// (added by the build overlay; simulation only).\nfunc VerifResetGlobals() {\n" + mbody.String() + "}\n"
	memoResetNoop := `//go:build tinygo || coraza.no_memoize

package memoize

func VerifResetGlobals() {}
`
	for name, src := range map[string]string{"zz_verif_reset.go": memoReset, "zz_verif_reset_noop.go": memoResetNoop} {
		f := filepath.Join(gen, "internal", "memoize", name)
		must(os.MkdirAll(filepath.Dir(f), 0o755))
		must(os.WriteFile(f, []byte(src), 0o644))
		overlay[filepath.Join(*repo, "internal", "memoize", name)] = f
	}

	// 4. alternative go.mod / go.sum (adds porcupine)
	mod, err := os.ReadFile(filepath.Join(*repo, "go.mod"))
	must(err)
	mod = append(mod, []byte("\nrequire github.com/anishathalye/porcupine v1.3.0\n")...)
	must(os.WriteFile(filepath.Join(*out, "alt.mod"), mod, 0o644))
	sum, err := os.ReadFile(filepath.Join(*repo, "go.sum"))
	must(err)
	must(os.WriteFile(filepath.Join(*out, "alt.sum"), sum, 0o644))

	ov, _ := json.MarshalIndent(map[string]any{"Replace": overlay}, "", " ")
	must(os.WriteFile(filepath.Join(*out, "overlay.json"), ov, 0o644))
	sort.Slice(sites, func(i, j int) bool { return sites[i].ID < sites[j].ID })
	sort.Strings(skippedRanges)
	sj, _ := json.MarshalIndent(map[string]any{"sites": sites, "unrewritten_map_ranges": skippedRanges}, "", " ")
	must(os.WriteFile(filepath.Join(*out, "sites.json"), sj, 0o644))
	// Go source with the site table, compiled into the harness.
	var sb strings.Builder
	sb.WriteString("package sitetab\n\n// generated by simgen\n\nvar Sites = map[uint32]string{\n")
	seen := map[uint32]bool{}
	for _, s := range sites {
		if seen[s.ID] {
			continue
		}
		seen[s.ID] = true
		fmt.Fprintf(&sb, "\t%d: %q,\n", s.ID, s.Kind+" "+s.Pos+" "+s.Func)
	}
	sb.WriteString("}\n\nvar UnrewrittenMapRanges = []string{\n")
	for _, s := range skippedRanges {
		fmt.Fprintf(&sb, "\t%q,\n", s)
	}
	sb.WriteString("}\n")
	st := filepath.Join(gen, "verifrt", "sitetab", "sitetab.go")
	must(os.MkdirAll(filepath.Dir(st), 0o755))
	must(os.WriteFile(st, []byte(sb.String()), 0o644))
	overlay[filepath.Join(*repo, "verifrt", "sitetab", "sitetab.go")] = st
	ov, _ = json.MarshalIndent(map[string]any{"Replace": overlay}, "", " ")
	must(os.WriteFile(filepath.Join(*out, "overlay.json"), ov, 0o644))
	if *verbose {
		fmt.Fprintf(os.Stderr, "simgen: %d files overlaid, %d sites, %d map ranges left alone\n", len(overlay), len(sites), len(skippedRanges))
	}
}

func moduleDir(mod string) string {
	cmd := exec.Command(*goBin, "list", "-m", "-f", "{{.Dir}}", mod)
	cmd.Dir = *repo
	cmd.Stderr = os.Stderr
	o, err := cmd.Output()
	if err != nil {
		fatal("go list -m %s: %v", mod, err)
	}
	return strings.TrimSpace(string(o))
}

func must(err error) {
	if err != nil {
		fatal("%v", err)
	}
}

// importName returns the local name under which path is imported in f ("" if
// not imported, "_"/"." are returned as is).
func importSpec(f *ast.File, path string) *ast.ImportSpec {
	for _, is := range f.Imports {
		p, _ := strconv.Unquote(is.Path.Value)
		if p == path {
			return is
		}
	}
	return nil
}

func localName(is *ast.ImportSpec, def string) string {
	if is == nil {
		return ""
	}
	if is.Name != nil {
		return is.Name.Name
	}
	return def
}

var timeFuncs = map[string]bool{"Now": true, "Since": true, "Until": true, "After": true, "Sleep": true,
	"NewTimer": true, "AfterFunc": true, "Tick": true, "NewTicker": true}

func rewriteFile(fset *token.FileSet, f *ast.File, src []byte, rel string, info *types.Info, allYield bool) ([]byte, bool) {
	var edits []edit
	tf := fset.File(f.Pos())
	off := func(p token.Pos) int { return tf.Offset(p) }
	add := func(p token.Pos, del int, text string) {
		edits = append(edits, edit{off: off(p), del: del, text: text, ord: len(edits)})
	}
	needRT := false
	fname := filepath.Base(tf.Name())
	relFile := rel + "/" + fname

	// --- import swaps
	swap := map[string]string{
		"sync":                           rtPath + "/simsync",
		"sync/atomic":                    rtPath + "/simatomic",
		"os":                             rtPath + "/simos",
		"golang.org/x/sync/singleflight": rtPath + "/singleflight",
	}
	defName := map[string]string{"sync": "sync", "sync/atomic": "atomic", "os": "os", "golang.org/x/sync/singleflight": "singleflight"}
	for path, np := range swap {
		is := importSpec(f, path)
		if is == nil {
			continue
		}
		name := localName(is, defName[path])
		start := is.Pos()
		add(start, off(is.Path.End())-off(start), fmt.Sprintf("%s %q", name, np))
	}

	// --- time.* and rand.NewSource
	timeName := localName(importSpec(f, "time"), "time")
	randName := localName(importSpec(f, "math/rand"), "rand")
	usedTime, usedRand := false, false

	var curFunc, curRecv string
	wantStmt := func() bool { return allYield || matchFn(stmtYield[rel], curRecv, curFunc) }
	wantEntry := func() bool { return matchFn(entryYield[rel], curRecv, curFunc) }
	wantLoop := func() bool { return matchFn(loopYield[rel], curRecv, curFunc) }

	yieldText := func(kind string, p token.Pos) string {
		pos := fset.Position(p)
		id := siteID(kind, relFile, pos.Line, pos.Column)
		fn := curFunc
		if curRecv != "" {
			fn = curRecv + "." + curFunc
		}
		sites = append(sites, siteInfo{ID: id, Kind: kind, Pos: fmt.Sprintf("%s:%d", relFile, pos.Line), Func: fn})
		needRT = true
		return fmt.Sprintf("verifrt.Y(%d);", id)
	}

	var walkStmts func(list []ast.Stmt)
	var walk func(n ast.Node)
	walkStmts = func(list []ast.Stmt) {
		for _, s := range list {
			if wantStmt() {
				switch s.(type) {
				case *ast.EmptyStmt, *ast.CaseClause, *ast.CommClause:
				default:
					add(s.Pos(), 0, yieldText("stmt", s.Pos()))
				}
			}
			walk(s)
		}
	}
	walk = func(n ast.Node) {
		if n == nil {
			return
		}
		ast.Inspect(n, func(m ast.Node) bool {
			switch x := m.(type) {
			case *ast.BlockStmt:
				walkStmts(x.List)
				return false
			case *ast.CaseClause:
				for _, e := range x.List {
					walk(e)
				}
				walkStmts(x.Body)
				return false
			case *ast.CommClause:
				if x.Comm != nil {
					walk(x.Comm)
				}
				walkStmts(x.Body)
				return false
			case *ast.FuncLit:
				// body of a closure: statements inside are handled with the
				// enclosing function's policy
				if x.Body != nil {
					walkStmts(x.Body.List)
				}
				return false
			case *ast.ForStmt:
				if wantLoop() && x.Body != nil {
					add(x.Body.Lbrace+1, 0, yieldText("loop", x.Body.Lbrace))
				}
			case *ast.RangeStmt:
				if wantLoop() && x.Body != nil {
					add(x.Body.Lbrace+1, 0, yieldText("loop", x.Body.Lbrace))
				}
				if info != nil {
					if tv, ok := info.Types[x.X]; ok && tv.Type != nil {
						if mt, ok := tv.Type.Underlying().(*types.Map); ok {
							pos := fset.Position(x.Pos())
							if b, ok := mt.Key().Underlying().(*types.Basic); ok && b.Info()&types.IsOrdered != 0 {
								id := siteID("maprange", relFile, pos.Line, pos.Column)
								sites = append(sites, siteInfo{ID: id, Kind: "maprange", Pos: fmt.Sprintf("%s:%d", relFile, pos.Line)})
								add(x.X.Pos(), 0, fmt.Sprintf("verifrt.MapRange(%d, ", id))
								add(x.X.End(), 0, ")")
								needRT = true
							} else {
								skippedRanges = append(skippedRanges, fmt.Sprintf("%s:%d key=%s", relFile, pos.Line, mt.Key().String()))
							}
						}
					}
				}
			case *ast.GoStmt:
				// go f(x)  ->  verifrt.Go(func(){ f(x) })
				add(x.Go, 2, "verifrt.Go(func(){")
				add(x.Call.End(), 0, "})")
				needRT = true
			case *ast.SelectorExpr:
				if id, ok := x.X.(*ast.Ident); ok {
					if timeName != "" && id.Name == timeName && timeFuncs[x.Sel.Name] {
						add(x.Pos(), off(x.End())-off(x.Pos()), "verifrt."+x.Sel.Name)
						needRT = true
						usedTime = true
					}
					if randName != "" && id.Name == randName && x.Sel.Name == "NewSource" && rel == "internal/strings" {
						add(x.Pos(), off(x.End())-off(x.Pos()), "verifrt.NewRandSource")
						needRT = true
						usedRand = true
					}
				}
			}
			return true
		})
	}

	for _, d := range f.Decls {
		switch x := d.(type) {
		case *ast.FuncDecl:
			curFunc = x.Name.Name
			curRecv = ""
			if x.Recv != nil && len(x.Recv.List) > 0 {
				curRecv = recvName(x.Recv.List[0].Type)
			}
			if x.Body == nil {
				continue
			}
			if wantEntry() && (ast.IsExported(curFunc) || rel == "http") {
				add(x.Body.Lbrace+1, 0, yieldText("entry", x.Body.Lbrace))
			}
			walkStmts(x.Body.List)
		default:
			curFunc, curRecv = "", ""
			walk(d)
		}
	}

	if len(edits) == 0 {
		return src, false
	}
	if needRT {
		// import on the package clause line keeps all line numbers intact
		add(f.Name.End(), 0, fmt.Sprintf("; import verifrt %q", rtPath))
	}
	sort.SliceStable(edits, func(i, j int) bool {
		if edits[i].off != edits[j].off {
			return edits[i].off < edits[j].off
		}
		return edits[i].ord < edits[j].ord
	})
	var b bytes.Buffer
	last := 0
	for _, e := range edits {
		if e.off < last {
			fatal("overlapping edits in %s at offset %d", tf.Name(), e.off)
		}
		b.Write(src[last:e.off])
		b.WriteString(e.text)
		last = e.off + e.del
	}
	b.Write(src[last:])
	if usedTime {
		fmt.Fprintf(&b, "\nvar _ %s.Duration\n", timeName)
	}
	if usedRand {
		fmt.Fprintf(&b, "\nvar _ %s.Source\n", randName)
	}
	return b.Bytes(), true
}

func recvName(e ast.Expr) string {
	switch x := e.(type) {
	case *ast.StarExpr:
		return recvName(x.X)
	case *ast.Ident:
		return x.Name
	case *ast.IndexExpr:
		return recvName(x.X)
	case *ast.IndexListExpr:
		return recvName(x.X)
	}
	return ""
}
