module simgen

go 1.25.0
