#!/bin/bash
# usage: build.sh <scratch-dir> <out-binary> [race] [tags]
# Regenerates the instrumented view of $REPO and builds the vsim harness.
set -euo pipefail
ROOT=$(dirname "$(dirname "$(readlink -f "$0")")")
. "$ROOT/bin/env.sh"
SCRATCH=$1; OUT=$2; RACE=${3:-norace}; TAGS=${4:-}
mkdir -p "$SCRATCH"
if [ ! -x "$ROOT/bin/simgen" ] || [ "$ROOT/src/simgen"/main.go -nt "$ROOT/bin/simgen" ]; then
  (cd "$ROOT/src/simgen" && $GO build -o "$ROOT/bin/simgen" .)
fi
"$ROOT/bin/simgen" -repo "$REPO" -rt "$ROOT/src/verifrt" -out "$SCRATCH" -go "$GO" ${TAGS:+-tags "$TAGS"}
RFLAG=""; [ "$RACE" = race ] && RFLAG="-race"
ALLTAGS="verif${TAGS:+,$TAGS}"
(cd "$REPO" && $GO build $RFLAG -tags "$ALLTAGS" -modfile="$SCRATCH/alt.mod" -overlay="$SCRATCH/overlay.json" -o "$OUT" github.com/corazawaf/coraza/v3/verifrt/cmd/vsim)
