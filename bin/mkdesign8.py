#!/usr/bin/env python3
"""Rewrites DESIGN.md §8 (seeded changes and which check catches which) from /verif/seeded/*/meta.json."""
import json, glob, os, re
rows = []
for d in sorted(glob.glob('/verif/seeded/*/meta.json')):
    m = json.load(open(d))
    notes = m.get('needs_to_manifest', '')
    first = re.sub(r'^#+\s*', '', notes).split(' ## ')[0]
    first = re.sub(r'\s+', ' ', first)[:170]
    fps = m['checks_run']['violations']
    clauses = sorted({f['fingerprint'].split('/')[1] for f in fps})
    rows.append((m['id'], m['breaks_property'], first, 'yes' if m['checks_run']['caught'] else 'NO', ', '.join(clauses)[:120]))
extra = ''
if os.path.exists('/verif/seeded/NOT_KEPT.md'):
    extra = open('/verif/seeded/NOT_KEPT.md').read()
sec = ['## 8. Seeded property-breaking changes and which check catches which', '',
 'Every change below was written by a fresh sub-agent that saw only the text of one property and its own',
 'scratch worktree of /repo (nothing from /verif). It was kept only after `bin/mutant-confirm` showed, in a',
 'scratch worktree: the demonstration passes on the unchanged tree, the patch applies and builds, the',
 'demonstration fails with it, and the pinned suite (2796 tests, incl. testing/coreruleset) still passes.',
 '`checks` = the quick tier of the property\'s check run by `bin/mutant-eval` against a scratch worktree',
 'with the patch (never /repo itself); the clause names are the oracle clauses that fired.', '',
 '| seeded change | property | what it is | caught by its check | oracle clauses that fired |',
 '|---|---|---|---|---|']
for r in rows:
    sec.append('| %s | %s | %s | %s | %s |' % r)
sec.append('')
sec.append(extra)
s = open('/verif/DESIGN.md').read()
i = s.find('## 8. Seeded property-breaking changes')
if i >= 0:
    s = s[:i]
s = s.rstrip() + '\n\n' + '\n'.join(sec) + '\n'
open('/verif/DESIGN.md', 'w').write(s)
print(len(rows), 'rows')
