#!/usr/bin/env python3
"""Rewrites DESIGN.md §8 (seeded changes and which check catches which) from /verif/seeded/*/meta.json."""
import json, glob, os, re
rows = []
for d in sorted(glob.glob('/verif/seeded/*/meta.json')):
    m = json.load(open(d))
    notes = m.get('needs_to_manifest', '')
    first = re.sub(r'^#+\s*', '', notes).split(' ## ')[0]
    first = re.sub(r'\s+', ' ', first)[:170]
    fps = m['checks_run']['violations']
    clauses = sorted({f['fingerprint'].split('/')[1] for f in fps})
    rows.append((m['id'], m['breaks_property'], first, 'yes' if m['checks_run']['caught'] else 'NO', ', '.join(clauses)[:120]))
extra = ''
if os.path.exists('/verif/seeded/NOT_KEPT.md'):
    extra = open('/verif/seeded/NOT_KEPT.md').read()
sec = ['## 8. Seeded property-breaking changes and which check catches which', '',
 'Every change below was written by a fresh sub-agent that saw only the text of one property and its own',
 'scratch worktree of /repo (nothing from /verif). It was kept only after `bin/mutant-confirm` showed, in a',
 'scratch worktree: the demonstration passes on the unchanged tree, the patch applies and builds, the',
 'demonstration fails with it, and the pinned suite (2796 tests, incl. testing/coreruleset) still passes.',
 '`checks` = the quick tier of the property\'s check run by `bin/mutant-eval` against a scratch worktree',
 'with the patch (never /repo itself); the clause names are the oracle clauses that fired.', '',
 '| seeded change | property | what it is | caught by its check | oracle clauses that fired |',
 '|---|---|---|---|---|']
for r in rows:
    sec.append('| %s | %s | %s | %s | %s |' % r)
sec.append('')
sec.append(extra)
# behaviour-preserving changes
ben = []
for d in sorted(glob.glob('/verif/benign/*/meta.json')):
    m = json.load(open(d))
    notes = open(os.path.dirname(d) + '/NOTES.md').read().strip().split('\n')
    title = re.sub(r'^#+\s*', '', notes[0])[:150] if notes else ''
    ben.append((m['id'], ' '.join(m['files'])[:90], title, ' '.join(c['check'] for c in m['checks_run']), 'yes' if m['all_silent'] else 'NO'))
if ben:
    sec += ['', '### Behaviour-preserving changes (the checks must stay silent)', '',
            'Written the same way (a fresh sub-agent per property, property text and scratch worktree only) but with the',
            'opposite brief: a non-trivial refactoring or optimisation of the code the property is about that keeps',
            'the behaviour. Kept under `/verif/benign/`; `bin/benign-eval` applies each to a scratch worktree and runs the',
            'quick tier of every check that touches the changed files. A check that speaks here would be a false alarm.', '',
            '| change | files | what it is | checks run | all silent |', '|---|---|---|---|---|']
    for r in ben:
        sec.append('| %s | %s | %s | %s | %s |' % r)
    sec.append('')
s = open('/verif/DESIGN.md').read()
i = s.find('## 8. Seeded property-breaking changes')
if i >= 0:
    s = s[:i]
s = s.rstrip() + '\n\n' + '\n'.join(sec) + '\n'
open('/verif/DESIGN.md', 'w').write(s)
print(len(rows), 'rows')
