#!/usr/bin/env python3
"""Assembles /verif/seeded/<id>/ from the sub-agents' deliverables.

usage: mkseeded.py <wave> <srcroot> <confirm-log> <matrix-log>
  wave        w1 | w2 | w3 ...
  srcroot     /tmp/mut, /tmp/mut2, ...   (contains <PROP>/_out/{A,B}/)
  confirm-log output of bin/mutant-confirm runs ("== PROP/_out/X" + "RESULT ...")
  matrix-log  lines "<wave> <PROP> <X> :: <ID> rc=<n> ..." from bin/mutant-eval

Only mutants whose confirmation shows: demo passes without the patch, build ok,
demo fails with the patch, pinned suite 2796/2796 with the patch are kept.
"""
import json, os, re, shutil, sys

wave, srcroot, conflog, matlog = sys.argv[1:5]
conf = {}
cur = None
for line in open(conflog):
    line = line.rstrip("\n")
    m = re.match(r"== (C\d+)/_out/([AB])", line)
    if m:
        cur = (m.group(1), m.group(2))
        continue
    if line.startswith("RESULT") and cur:
        conf[cur] = line
mat = {}
for line in open(matlog):
    m = re.match(r"(\w+) (C\d+) ([AB]) :: (.*)", line)
    if m and m.group(1) == wave:
        mat[(m.group(2), m.group(3))] = m.group(4).strip()

kept, dropped = [], []
for (prop, ab), res in sorted(conf.items()):
    ok = ("demo_without_patch=pass" in res and "build=ok" in res and "demo_with_patch=fails" in res and "2796/2796" in res)
    d = f"{srcroot}/{prop}/_out/{ab}"
    name = f"{wave}-{prop}-{ab}"
    if not ok:
        dropped.append((name, res))
        continue
    out = f"/verif/seeded/{name}"
    os.makedirs(out, exist_ok=True)
    patch = d + "/patch.rebased.diff" if os.path.exists(d + "/patch.rebased.diff") else d + "/patch.diff"
    shutil.copy(patch, out + "/patch.diff")
    shutil.copy(d + "/demo_test.go", out + "/demo_test.go")
    notes = open(d + "/NOTES.md").read() if os.path.exists(d + "/NOTES.md") else ""
    open(out + "/NOTES.md", "w").write(notes)
    ev = mat.get((prop, ab), "")
    caught = " rc=1 " in (" " + ev + " ")
    fps = re.findall(r"--- (\S+) \(seen (\d+) times\)", ev)
    meta = {
        "id": name,
        "breaks_property": prop,
        "origin": "written by a sub-agent that saw only the property text and its own scratch worktree of /repo (nothing from /verif)",
        "needs_to_manifest": " ".join(notes.split())[:900],
        "confirmed": {
            "how": "bin/mutant-confirm in a scratch worktree of /repo HEAD: demo test without the patch, patch applied + go build ./..., demo test with the patch, bin/baseline.sh (pinned suite incl. testing/coreruleset) with the patch",
            "result": res,
        },
        "checks_run": {
            "how": f"bin/mutant-eval patch.diff {prop}  (quick tier of the property's check against a scratch worktree with the patch applied)",
            "caught": caught,
            "violations": [{"fingerprint": f, "runs": int(n)} for f, n in fps],
        },
    }
    json.dump(meta, open(out + "/meta.json", "w"), indent=1)
    kept.append(name)
print("kept", len(kept), kept)
print("dropped", len(dropped))
for n, r in dropped:
    print("  ", n, r[:160])
