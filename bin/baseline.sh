#!/bin/bash
# Runs the repository's pinned test suite (guard off: nothing in /repo carries
# the verif tag, and no overlay is used) and compares with BASELINE.json.
# usage: baseline.sh [repo-dir]
set -uo pipefail
R=${1:-/repo}
OUT=$(mktemp /var/tmp/baseline-XXXXXX.json)
for m in . ./testing/coreruleset; do
  ( cd $R/$m && MF=""; gw=$(go env GOWORK 2>/dev/null); if [ -z "$gw" ] || [ "$gw" = off ]; then MF="-mod=mod"; fi
    go test $MF -json -vet=off -count=1 -timeout 25m ./... ) >> $OUT 2>/dev/null
done
python3 - "$OUT" <<'PY'
import json,sys
base=json.load(open('/root/.vp/BASELINE.json'))
want=set(base['stable_pass'])
res={}
for line in open(sys.argv[1]):
    try: e=json.loads(line)
    except Exception: continue
    if e.get('Test') and e.get('Action') in ('pass','fail','skip'):
        res[e['Package']+'::'+e['Test']]=e['Action']
bad=[t for t in want if res.get(t)!='pass']
print(f"baseline: {len(want)-len(bad)}/{len(want)} stable tests pass")
for t in bad[:40]: print("  NOT PASSING:",t,res.get(t))
sys.exit(1 if bad else 0)
PY
rc=$?
rm -f $OUT
exit $rc
