#!/usr/bin/env python3
"""Regenerates /verif/MANIFEST.json from the table below (keeps it schema-valid)."""
import json, subprocess

NA = {
 "C01": "pure function of (rule set, request): no schedule, stream, clock, fault or history in its quantifier; the one nondeterministic input that can corrupt it (map order via the transformation cache) is decided under C04/C12",
 "C03": "decode/round-trip law over request bytes and settings - a pure function of its input; order-dependent drops are C04 violations and are reported (and were repaired) there",
 "C07": "quantifier is all directive texts x all bytes (grammar fuzzing, not simulation); panics reachable through histories, interleavings and faults are reported by the C02/C05/C06/C10/C13/C18/C19/C20 runs",
 "C08": "flow control is a deterministic sequential interpreter over (rule set, matches); nothing to schedule or fault",
 "C09": "action multiplicity and counter arithmetic are a pure function of rule set and request",
 "C11": "equivalence of two pure functions of (pattern, input)",
 "C14": "transformations are pure byte-string functions",
 "C15": "operators are pure predicates of (argument, input)",
 "C16": "parsing is a pure function of configuration text",
 "C17": "equivalence of two configurations over all requests - pure; its isolation clause is exercised by the C05/C06 workloads",
}

PENDING = []

CHECKS = {
 "C18": dict(cat="exploration", design="DESIGN.md §4 C18",
   technique="deterministic simulation: client stream, scripted handler and a net/http-contract downstream stub as three in-process parties with stream faults; differential against the unwrapped handler plus a blocking model",
   text="Every run sends one request through http.WrapHandler with a simulated client (body sizes around the limits, known/unknown length, chunking, failures), a scripted handler (reads, headers, 1xx/204/304, chunked writes, Flush, ReadFrom) and a recording downstream writer that follows the documented net/http contract. A small model decides whether and in which phase the configuration blocks; blocked cases are checked against the statement, unblocked ones differentially against the same handler script run unwrapped.",
   note="trusted: the downstream stub's reading of the net/http contract; the blocking model (token rules and limit arithmetic); only deny and body-limit interruptions"),
 "C19": dict(cat="exploration", design="DESIGN.md §4 C19",
   technique="deterministic simulation: decision-table scenarios on a recording writer, and scheduler-interleaved transactions on the real serial/concurrent writers over a simulated disk and clock, under the race detector",
   text="Part 1 draws audit engine (configured and ctl-switched), relevant-status pattern, parts, format, log/nolog/auditlog/noauditlog combinations, interruptions and engine modes and compares record count, well-formedness, listed rules and error-callback multiplicity with a reference decision function written from the statement (in DetectionOnly the would-be status comes from a twin WAF running the same transaction with the engine On). Part 2 interleaves 2-6 tasks finishing transactions on one WAF whose real serial or concurrent writer writes to the simulated disk, with yields inside the writers and a simulated clock crossing minute/day boundaries; the files are parsed afterwards: whole records, each transaction exactly once, paths derived from timestamp and id, index entries not interleaved.",
   note="trusted: the reference decision function (RelevantOnly only with a pattern), JSON/native well-formedness parsers; parts algebra of ctl:auditLogParts not modelled"),
 "C06": dict(cat="exploration", design="DESIGN.md §4 C06",
   technique="deterministic simulation: seeded cooperative scheduler over real goroutines with race-detector-invisible hand-over; race detector + per-transaction differential oracle",
   text="2-8 simulated tasks (transactions on one shared WAF, WAF builders/closers sharing the process-wide pattern cache and transformation-id table, pool churners) are interleaved by a seeded scheduler (random walk, PCT, round-robin) with yield points at every sync/atomic operation, every statement of the shared-state packages and every rule evaluation. The Go race detector observes the real code under each chosen interleaving; additional oracles: no panic, no deadlock, pool exclusivity, each transaction's outcome equals its outcome alone. The thorough tier repeats the search on the multiphase-evaluation build.",
   note="trusted: the scheduler's race-invisible hand-over (selftest proves races stay visible and mutex-protected code stays silent), simsync primitives; simulated disk operations add real happens-before edges (may hide, never invent, a race)"),
 "C13": dict(cat="exploration", design="DESIGN.md §4 C13",
   technique="deterministic simulation: build/close/probe histories over the process-wide cache, sequential and scheduler-interleaved under the race detector; differential against a no_memoize build of the same tree",
   text="Histories of WAF constructions, closures and probe transactions drawn from ~500 configurations that put one string into different cache-using roles (phrase list, data set name with different contents, file name under different root file systems, regex keys, ctl regex keys, REST paths, NID patterns, relevant-status pattern, @rx with prefilter On/Off, and all pairs). Every build result and probe outcome is compared with a golden table produced by a second binary compiled from the same tree with the cache compiled out.",
   note="trusted: the no_memoize build as reference; the configuration pool construction; error messages are not compared"),
 "C02": dict(cat="exploration", design="DESIGN.md §4 C02",
   technique="deterministic simulation: unreliable connector (dropped / duplicated / reordered API calls) against a reference phase machine",
   text="The connector is simulated as an unreliable caller: the canonical call list is delivered through a channel that drops, duplicates and reorders calls, bodies arrive in pieces, engine modes and ctl:ruleEngine switches are drawn. After every delivered call a reference phase machine written from the statement checks which rules may have fired, that no request/response phase ran twice or after an interruption, and that every call returns the first interruption (or none in DetectionOnly / Off). Histories are unbounded in shape, so seeded exploration with shrinking is the fitting level.",
   note="trusted: the reference phase machine; rule-matching semantics only for single-token rules; zones the statement leaves open are listed as unchecked in the evidence"),
 "C05": dict(cat="exploration", design="DESIGN.md §4 C05",
   technique="deterministic simulation: transaction histories over a simulated pool (forced object reuse) and disk, differential against a fresh WAF",
   text="Histories of 1-3 predecessor transactions (interrupted in any phase, spilling to the simulated disk, changing engine/limits/exclusions by ctl, leaving skip/skipAfter/allow pending, omitting ProcessLogging, closed twice, abandoned after any call, optionally hit by a disk fault) followed by a probe on the recycled object handed out by the simulated pool; the probe's full outcome incl. a dump of every readable variable must equal the same probe on a fresh WAF.",
   note="trusted: the simulated pool policy (LIFO = always recycle), outcome normaliser; TIME*/DURATION/ENV/temp names excluded"),
 "C12": dict(cat="exploration", design="DESIGN.md §4 C12",
   technique="deterministic simulation of map order + colliding rule sequences; reference transformation model and identity-prefix differential",
   text="Rule sequences built to collide in the per-phase transformation cache (shared prefixes, selectors and exclusions that shift positions, targets that change inside a phase) on requests with repeated names and values, under simulator-chosen map orders. Oracles: the registered transformation functions applied directly to the values the rule selects, and the same rules with a distinct identity transformation per rule (no cross-rule sharing possible).",
   note="trusted: transformation functions (pure, C14), the twin-rule trick that reveals selected values"),
 "C20": dict(cat="fault_enumeration", design="DESIGN.md §4 C20",
   technique="deterministic simulation with systematic fault injection: every disk operation of a recorded run fails in turn, every early-termination point; random multi-fault runs in thorough",
   text="For each generated transaction the disk operation log of a fault-free run is enumerated exhaustively: every operation fails with every applicable fault kind, and the transaction is abandoned after every API call. Oracle: no panic, the failure is visible (returned error, error variable, Close error or log entry), legal short reads change nothing, no temp file remains after Close, the recycled object behaves like a fresh one and is handed to one transaction at a time even after Close was called twice; a body over the limit surfaces however its slices fall. Enumeration is exhaustive per scenario; scenarios are sampled.",
   note="trusted: simos fault semantics; configuration-time operations are not fault points; warn-level log entries count as visible"),
 "C04": dict(cat="exploration", design="DESIGN.md §4 C04",
   technique="deterministic simulation: simulator-chosen map iteration order and pool reuse, differential against canonical-order reference",
   text="Seeded search over the two hidden schedulers that can make a transaction's outcome vary: every map iteration in coraza asks the simulator for an order (rotation / full shuffle) and the transaction pool is forced to recycle objects; each generated (configuration, request) is run N times and compared with the canonical-order run made under a pool that never recycles (every sync.Pool of the library is a scheduler decision, too). Sampled runs are repeated in a fresh process and one worker never resets the process-wide tables (aged process), so that dependence on the history of the process is seen as well. Exploration is the right level: the space of orders is factorial and the defect class needs an unlucky order plus a rule shape that observes it.",
   note="trusted: simgen's range rewrite (MapRange visits exactly the live keys), the outcome normaliser; a shuffle is stronger than today's runtime (language allows any order)"),
 "C10": dict(cat="exploration", design="DESIGN.md §4 C10",
   technique="deterministic simulation: scripted body streams + simulated spill disk, checked against a reference buffer model",
   text="Seeded operation sequences over the body entry points (slice writes, readers with/without length, chunk scripts, (0,nil) reads, failing streams) with limits drawn small so every threshold is crossed; each scenario runs in memory and spilled to the simulated disk and is compared call by call with a reference buffer written from the statement.",
   note="trusted: the reference model (a byte slice and three flags), simos file semantics (fidelity-tested against the real disk in the thorough tier)"),
}

def main():
    m = {
     "version": 1,
     "setup_cmd": "bash /verif/bin/setup.sh",
     "hooks": {
        "guard": "verif",
        "enable": "no source hooks in /repo: every check regenerates an instrumented overlay of the working tree (bin/build.sh = simgen + go build -overlay -tags verif); /repo only carries unguarded 'fix:' commits",
        "baseline_off_cmd": "bash /verif/bin/baseline.sh /repo",
        "source_commits": [],
        "add_only": True,
     },
     "engines": [{
        "name": "vsim", "path": "/verif/src/verifrt",
        "serves_properties": sorted(CHECKS),
        "kind_free_text": "deterministic simulator: seeded cooperative scheduler over real goroutines with race-detector-invisible hand-over, simulated disk / clock / random source / sync.Pool / map iteration order, scripted streams; installed by a go build overlay generated from the working tree (simgen)",
     }],
     "checks": [],
     "notes": "exit codes: 0 held (KNOWN-FINDING lines possible), 1 violation (VIOLATION property=<id> replay=<path>), 2 infrastructure trouble. VERIF_SEED selects the base seed, VERIF_WORKERS the worker count. Replay: /verif/bin/replay <file>.",
     "not_applicable": [{"property_id": k, "reason": v} for k, v in sorted(NA.items()) if k not in CHECKS]
        + [{"property_id": k, "reason": "not claimed yet: the simulation check for this property is still under construction (DESIGN.md §4)"} for k in PENDING if k not in CHECKS],
    }
    for pid in sorted(CHECKS):
        c = CHECKS[pid]
        m["checks"].append({
          "property_id": pid,
          "quick_cmd": f"bash /verif/bin/check {pid} quick",
          "thorough_cmd": f"bash /verif/bin/check {pid} thorough",
          "evidence_file": f"/verif/evidence/{pid}.json",
          "replay_cmd_template": "bash /verif/bin/replay {path}",
          "engine": "vsim",
          "level_claimed": {"category": c["cat"], "text": c["text"], "design_ref": c["design"]},
          "level_note": c["note"],
          "technique": c["technique"],
        })
    json.dump(m, open("/verif/MANIFEST.json", "w"), indent=1)
    try:
        import jsonschema
        jsonschema.validate(m, json.load(open("/root/.vp/MANIFEST.schema.json")))
        print("MANIFEST valid;", len(m["checks"]), "checks,", len(m["not_applicable"]), "not applicable")
    except ImportError:
        print("jsonschema not available; written without validation")

main()
