#!/bin/bash
# Builds the framework from files on disk only (offline).
set -euo pipefail
ROOT=$(dirname "$(dirname "$(readlink -f "$0")")")
. "$ROOT/bin/env.sh"
cd "$ROOT/src/simgen" && $GO build -o "$ROOT/bin/simgen" .
echo "setup ok"
