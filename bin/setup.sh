#!/bin/bash
# Builds the framework from files on disk only (offline).
set -euo pipefail
. /verif/bin/env.sh
cd /verif/src/simgen && $GO build -o /verif/bin/simgen .
echo "setup ok"
