# sourced by every script in /verif/bin

export REPO=${REPO:-/repo}
export GO=/root/go/pkg/mod/golang.org/toolchain@v0.0.1-go1.25.0.linux-amd64/bin/go
export GOROOT=/root/go/pkg/mod/golang.org/toolchain@v0.0.1-go1.25.0.linux-amd64
export PATH=$GOROOT/bin:$PATH
export GOTOOLCHAIN=local GOFLAGS=-mod=mod GOPROXY=off GOSUMDB=off GOWORK=off GONOSUMDB='*' GONOSUMCHECK=1 GOFLAGS=-mod=mod
export GOCACHE=${GOCACHE:-/root/.cache/go-build}
export TZ=UTC LANG=C LC_ALL=C
