#!/usr/bin/env python3
"""Regenerates known_findings.json 'fixed' entries with the current commit hashes of /repo's fix: commits (looked up by subject)."""
import json, subprocess
log = subprocess.check_output(['git', '-C', '/repo', 'log', '--format=%h %s']).decode().splitlines()
def h(sub):
    for l in log:
        if sub in l:
            return l.split()[0]
    raise SystemExit("fix commit not found: " + sub)
FIXED = [
 ("C04", "iterate collections in insertion order", "collections were walked in Go map order, so last-match state (MATCHED_VAR, captures, chained rules) and with it firing and blocking decisions varied between runs of the same request (SecRule ARGS_GET \"@rx .\" \"deny,chain\" / SecRule MATCHED_VAR \"@streq 2\" on /?a=1&b=2)"),
 ("C04", "urlencoded body keeps every value", "urlencoded body a=1&A=2: Set() while ranging a map dropped one of the two values of the case-folded key, survivor chosen by map order"),
 ("C04", "feed arguments, cookies", "query arguments / cookies / JSON paths / multipart part headers / net/http headers were inserted in Go map order: SecArgumentsLimit 2 on ?a=1&b=2&c=3&d=4 kept a different pair each run"),
 ("C12", "transformation cache hit must come", "transformation cache key (key pointer, position, variable, chain) is shared by different values: ARGS_GET|!ARGS_GET:a then ARGS_GET with t:urlDecode on /?b=Ab&b=aB&x=Ab&a=Ab evaluated the second rule against b=aB twice; MATCHED_VAR re-read after it changed returned the stale transformed value"),
 ("C20", "remove the body spill file even when closing", "close-error on the request body spill file during Transaction.Close: BodyBuffer.Reset returned before os.Remove and the file stayed in SecTmpDir"),
 ("C20", "multipart upload temp file is removed", "write-error / short-write / close-error on a multipart upload temp file: file created but not registered in FILES_TMPNAMES so Close never removed it; a failing close was ignored in a defer (MULTIPART_STRICT_ERROR stayed 0)"),
 ("C20", "log when the request body cannot be read back", "read-error on the spilled request body while assembling audit part C: record written without the body and nothing logged"),
 ("C20", "audit writers return the error", "write-error / short-write on the serial audit log (and the concurrent writer's index file): Println/Printf dropped the write error, ProcessLogging logged nothing"),
 ("C02", "logging-phase rule must not replace", "a phase-5 rule with deny/drop/redirect overwrote the interruption recorded by the rule that blocked the request (deny in phase 1, deny in phase 5 on the same request: Interruption() reported the phase-5 rule)"),
 ("C02", "body-limit rejection honours DetectionOnly", "ctl:ruleEngine=DetectionOnly in phase 1 + Sec{Request,Response}BodyLimitAction Reject + body over the limit: the write call returned a real 413/500 interruption and IsInterrupted() was true in DetectionOnly"),
 ("C06", "must not append into the shared rule", "data race (default build): doEvaluate appended per-transaction ctl:ruleRemoveTarget* exceptions into the backing array of the shared rule's Exceptions slice (rule with three configured !ARGS:x exclusions + ctl:ruleRemoveTargetById on two concurrent transactions)"),
 ("C13", "pattern cache keys carry their role", "cache keys without role or content: SecAction ctl:ruleRemoveTargetById=51;ARGS:/a.c/ built after a WAF with @pm a.c panics in NewWAF (AhoCorasick is not *regexp.Regexp); @pmFromDataset keyed by data set name and @pmFromFile by path made two WAFs with different contents under one name share the first matcher"),
 ("C18", "first Write must not leak the body", "phase-3 deny keyed on a response header, handler writes without calling WriteHeader, response body access off: the implicit WriteHeader ran phase 3 and set 403, but the same Write call still sent its chunk, so the client got 403 with handler body bytes"),
 ("C18", "passes 1xx informational responses through", "handler sends WriteHeader(103) then WriteHeader(404): the interceptor treated 103 as the response, dropped 404 as superfluous and the client received 200"),
 ("C05", "closing a transaction twice must not pool", "predecessor closed twice, then two transactions alive at the same time: Close put the object into the pool twice and both NewTransaction calls returned the same object (the bystander transaction turned into the probe)"),
 ("C19", "keeps the mandatory parts A and Z", "ctl:auditLogParts=+E on SecAuditLogParts ABCFHKZ: the record's parts became BCEFHK, the native record had no header section (transaction id) and no final boundary"),
 ("C05", "setvar:!tx.name (variable removal) panicked", "any rule with the documented removal form setvar:!tx.name that matches: nil macro dereference in setvarFn.Evaluate crashed ProcessRequestHeaders (reported as a predecessor / bystander panic by the C05 and C06 runs; the input-only class belongs to C07, which is not claimed)"),
 ("C06", "debuglog With copies the parent", "data race (default build): the WAF's debug logger carries default fields (Default().With(Str(component)).With(Str(node))); concurrent NewTransaction calls derive their loggers with With(tx_id) and wrote into the spare capacity of the same field buffer (debuglog/default.go With; debug lines carry another transaction's id)"),
]
OPEN = [
 {"property": "C06", "status": "open",
  "fingerprint": "C06/data-race/W:internal/corazawaf.computeRuleChainMinPhase",
  "what": "build tag coraza.rule.multiphase_evaluation only: data race on Rule.chainMinPhase - computeRuleChainMinPhase (rule_multiphase.go:241-254) lazily writes the field of the shared rule during evaluation while other transactions read it (rulegroup.go:184, rule_multiphase.go:261); needs two transactions that evaluate a chained rule for the first time at the same moment; not repaired: the upstream TODO calls for computing it at parse time, a parser refactoring that is not a small patch",
  "scenario": "any configuration with a chained rule, two concurrent transactions on a fresh WAF, thorough tier multiphase build"},
 {"property": "C06", "status": "open",
  "fingerprint": "C06/first-transaction-differs/multiphase-build",
  "what": "build tag coraza.rule.multiphase_evaluation only, same root cause as the chainMinPhase race: the value is computed lazily during the first evaluation, and rulegroup.go:179-188 treats a chained rule differently while it is still unset, so the first transaction a WAF serves is evaluated differently from every later one even sequentially (skip:1 on an earlier rule is consumed by a different rule): SecRule &QUERY_STRING|RESPONSE_HEADERS_NAMES \"@lt 3\" \"id:102,phase:5,pass,skip:1\" / chained rule 104 in phase 3 / SecRule ARGS_GET:/^a/ \"@pm foo\" \"id:154,phase:1\" on GET /index.php?A=foo fires 154 in the first transaction only. A transaction's outcome on a shared WAF therefore differs from its outcome alone whenever one of the two is the WAF's first. The check reports it under this fingerprint only after establishing that the same script alone gives two outcomes (first / later) and that the concurrent outcome equals one of them; every other difference stays a violation. Not repaired for the same reason as the race (parse-time computation needs the parser refactoring the upstream TODO describes).",
  "scenario": "multiphase build, a chained rule plus skip on a rule evaluated in an inferred phase; two sequential transactions on one WAF"},
]
try:
    old = json.load(open('/verif/known_findings.json'))
except Exception:
    old = {}
kf = {
 "comment": "Genuine defects of corazawaf/coraza found by the checks. 'open' findings are matched by exact fingerprint and reported as KNOWN-FINDING (exit 0); 'fixed' entries suppress nothing. Never written at run time.",
 "fixed": [f"fixed: property={p} {h(s)} {w}" for p, s, w in FIXED],
 "findings": OPEN,
}
json.dump(kf, open('/verif/known_findings.json', 'w'), indent=1)
print(len(kf["fixed"]), "fixed,", len(kf["findings"]), "open")
